"""Build a private copy of /repo's working tree with the simulator seams.

Never writes into /repo.  The scratch directory is created by the caller's
``Build`` context manager and removed on exit.
"""
import os
import shutil
import subprocess
import sys
import sysconfig
import tempfile

REPO = os.environ.get("VERIF_REPO", "/repo")
HERE = os.path.dirname(os.path.abspath(__file__))
PY = "/venv/bin/python"
GUARD = "JTIOSUE_QUBOVERT_VERIF"

KERNEL_RENAMES = [
    "-Drand_init=verif_rand_init", "-Drand_double=verif_rand_double",
    "-Drand_int=verif_rand_int", "-Dmalloc=verif_malloc",
    "-Drealloc=verif_realloc", "-Dfree=verif_free",
]


class BuildError(Exception):
    pass


def _run(cmd, cwd=None):
    p = subprocess.run(cmd, cwd=cwd, stdout=subprocess.PIPE, stderr=subprocess.STDOUT, text=True, timeout=300)
    if p.returncode != 0:
        raise BuildError("command failed: %s\n%s" % (" ".join(cmd), p.stdout[-4000:]))
    return p.stdout


def ext_suffix():
    out = subprocess.run([PY, "-c", "import sysconfig;print(sysconfig.get_config_var('EXT_SUFFIX'));print(sysconfig.get_paths()['include'])"],
                         stdout=subprocess.PIPE, text=True, check=True).stdout.split()
    return out[0], out[1]


def copy_tree(dst, repo=REPO):
    """Copy qubovert/**/*.py and the C sources (never a prebuilt .so)."""
    src = os.path.join(repo, "qubovert")
    if not os.path.isdir(src):
        raise BuildError("no qubovert package under %s" % repo)

    def ignore(d, names):
        return [n for n in names if n.endswith((".so", ".pyc", ".o")) or n == "__pycache__"]
    shutil.copytree(src, os.path.join(dst, "qubovert"), ignore=ignore)


def compile_ext(root, variant):
    """variant: 'sim' (gcc -O2, red-zone allocator) or 'san' (clang ASan+UBSan)."""
    suffix, inc = ext_suffix()
    sim = os.path.join(root, "qubovert", "sim")
    srcd = os.path.join(sim, "src")
    out = os.path.join(sim, "_canneal" + suffix)
    objd = os.path.join(root, "obj-" + variant)
    os.makedirs(objd, exist_ok=True)
    if variant == "sim":
        # -DNDEBUG as in a normal setuptools build of the extension (CPython's own assert()s in inline macros are compiled out);
        # the sanitizer variant below keeps assertions enabled
        cc = ["gcc", "-O2", "-DNDEBUG", "-fPIC", "-fno-builtin-malloc", "-fno-builtin-free", "-fno-builtin-realloc"]
        ld = ["gcc", "-shared"]
        extra = []
    elif variant == "san":
        cc = ["clang", "-O1", "-g", "-fPIC", "-fsanitize=address,undefined",
              "-fno-sanitize-recover=undefined", "-fno-omit-frame-pointer"]
        ld = ["clang", "-shared", "-shared-libasan", "-fsanitize=address,undefined"]
        extra = ["-DVERIF_NO_REDZONE"]
    else:
        raise BuildError("unknown variant " + variant)
    inc_flags = ["-I", inc, "-I", srcd]
    units = [
        (os.path.join(sim, "_canneal.c"), KERNEL_RENAMES),
        (os.path.join(srcd, "anneal_quso.c"), KERNEL_RENAMES),
        (os.path.join(srcd, "anneal_puso.c"), KERNEL_RENAMES),
        (os.path.join(srcd, "random.c"), ["-Dtime=verif_time", "-Dpcg32_random_r=verif_raw32", "-Dpcg32_boundedrand_r=verif_raw_bounded"]),
        (os.path.join(srcd, "pcg_basic.c"), []),
        (os.path.join(HERE, "shim.c"), extra),
    ]
    objs = []
    procs = []
    for path, flags in units:
        if not os.path.exists(path):
            raise BuildError("missing source " + path)
        o = os.path.join(objd, os.path.basename(path) + ".o")
        objs.append(o)
        procs.append((path, subprocess.Popen(cc + flags + inc_flags + ["-c", path, "-o", o],
                                             stdout=subprocess.PIPE, stderr=subprocess.STDOUT, text=True)))
    for path, p in procs:
        outp, _ = p.communicate(timeout=300)
        if p.returncode != 0:
            raise BuildError("compile failed: %s\n%s" % (path, outp[-4000:]))
    _run(ld + objs + ["-o", out, "-lm"])
    shutil.rmtree(objd, ignore_errors=True)
    return out


def asan_runtime():
    p = subprocess.run(["clang", "-print-file-name=libclang_rt.asan-x86_64.so"], stdout=subprocess.PIPE, text=True)
    path = p.stdout.strip()
    if not os.path.isabs(path) or not os.path.exists(path):
        raise BuildError("ASan runtime not found: %r" % path)
    return path


class Build:
    """Context manager: scratch copy of /repo's working tree with the shim build."""

    def __init__(self, variant="sim", repo=REPO, keep=False):
        self.variant, self.repo, self.keep = variant, repo, keep
        self.root = None

    def __enter__(self):
        self.root = tempfile.mkdtemp(prefix="simq-%s-" % self.variant)
        try:
            copy_tree(self.root, self.repo)
            compile_ext(self.root, self.variant)
        except Exception:
            shutil.rmtree(self.root, ignore_errors=True)
            raise
        return self

    def __exit__(self, *exc):
        if not self.keep:
            shutil.rmtree(self.root, ignore_errors=True)

    def env(self, hashseed=0, extra=None):
        e = dict(os.environ)
        e["PYTHONPATH"] = self.root + os.pathsep + os.path.dirname(HERE)
        e["PYTHONHASHSEED"] = str(hashseed)
        e["PYTHONDONTWRITEBYTECODE"] = "1"
        e[GUARD] = "1"
        e["VERIF_BUILD_ROOT"] = self.root
        e["VERIF_BUILD_VARIANT"] = self.variant
        e.pop("PYTHONSTARTUP", None)
        if self.variant == "san":
            e["LD_PRELOAD"] = asan_runtime()
            e["ASAN_OPTIONS"] = ("detect_leaks=0:exitcode=77:abort_on_error=0:"
                                 "allocator_may_return_null=1:malloc_fill_byte=165:"
                                 "max_malloc_fill_size=268435456")
            e["UBSAN_OPTIONS"] = "print_stacktrace=1:halt_on_error=1:exitcode=77"
        if extra:
            e.update(extra)
        return e


if __name__ == "__main__":
    v = sys.argv[1] if len(sys.argv) > 1 else "sim"
    with Build(v, keep=True) as b:
        print(b.root)
