"""Per-property plans: engine, build variant, budgets, evidence metadata."""

REAL_PY = ["qubovert/**/*.py (unmodified copy of /repo's working tree)"]
REAL_C = ["qubovert/sim/_canneal.c", "qubovert/sim/src/anneal_quso.c", "qubovert/sim/src/anneal_puso.c",
          "qubovert/sim/src/random.c (real PCG32 stream in pass-through mode)", "qubovert/sim/src/pcg_basic.c"]

PROPS = {
    "C13": {
        "engine": "e3",
        "quick": {"runs": 48000, "block": 1500, "wall": 70},
        "thorough": {"runs": 1600000, "block": 10000, "wall": 540},
        "meta": {
            "rule": ("each evaluation is one seeded history of <=60 list operations on <=3 live AnnealResults with plain-list "
                     "shadows; a run is non-trivial if an empty receiver, an empty argument, a self-argument or the removal/"
                     "overwrite of the current minimum occurred; distinct = distinct digests of the per-op event log"),
            "expected_probes": ["empty_receiver", "empty_argument", "self_argument", "removed_current_minimum", "tie_on_minimum"],
            "components": {"real": ["qubovert/sim/_anneal_results.py"] + REAL_PY, "stub": ["none (no seam needed: pure in-memory state machine)"]},
            "assumptions": ["reference model is a plain Python list of (state,value,spin) records",
                            "reflected k*res and in-place *= are not issued (the property lists only *)"],
        },
    },
}
