"""Per-property plans: engine, build variant, budgets, evidence metadata."""

REAL_PY = ["qubovert/**/*.py (unmodified copy of /repo's working tree)"]
REAL_C = ["qubovert/sim/_canneal.c", "qubovert/sim/src/anneal_quso.c", "qubovert/sim/src/anneal_puso.c",
          "qubovert/sim/src/random.c (real PCG32 stream in pass-through mode)", "qubovert/sim/src/pcg_basic.c"]

E4_META = {
    "rule": ("each evaluation is one seeded history of <=24 calls of anneal_quso/puso/qubo/pubo in one process, every call with its own "
             "model, schedule, visiting order, seed, simulated clock and RNG fault kind; a run is non-trivial if at least one RNG/clock/"
             "history fault took effect or a call was refined step-by-step against the reference chain; distinct = distinct digests of "
             "the per-call event log (results, draw counts, clock reads, allocation counts)"),
    "expected_probes": ["rng_passthrough_recorded", "rng_scripted", "rng_scripted_cycle", "rng_raw_words_scripted", "history_repeat", "matrix_index_gap",
                        "single_variable", "no_variables", "empty_schedule", "seed_zero", "seed_none", "no_couplings"],
    "components": {"real": REAL_C + REAL_PY,
                   "stub": ["rand_init/rand_double/rand_int entry points (pass-through-and-record or scripted)", "pcg32_random_r/pcg32_boundedrand_r as seen by random.c (real words, or scripted raw 32-bit words)", "time() (simulated clock array)",
                            "malloc/realloc/free (poison fill + red zones in the sim build; ASan in the san build)"]},
    "assumptions": ["integer / dyadic couplings so that all energies are exact in doubles", "reference Metropolis chain computes dE from two full exact evaluations",
                    "seed=None results in pass-through mode depend on a stack address and are excluded from digests (verdict only)"],
}

E1_META = {
    "rule": ("each evaluation is one seeded history of <=60 operations on a pool of <=6 live objects (ten model types, dicts, numbers) "
             "with exact reference polynomials and deep snapshots; a run is non-trivial if an event of interest fired (self-aliased "
             "operator, zero assigned to a new label, even-power spin key, KeyError inside an in-place operator, refresh/copy/conversion of a "
             "stale model, a hand-out mutated by the caller, a pure API call on a pool object, a second ancilla-bearing constraint, an info "
             "round trip with constraints and ancillas); distinct = distinct digests of the per-op event log"),
    "expected_probes": ["self_aliased_inplace", "self_aliased_operator", "reflected_operator", "cancellation"],
    "components": {"real": REAL_PY, "stub": ["none: the faults are caller-side (aliasing, mutation of hand-outs, mid-operation exceptions); no seam is replaced"]},
    "assumptions": ["integer / dyadic coefficients so qubovert's float arithmetic is exact and all comparisons are exact",
                    "reference polynomial arithmetic (RefPoly) written from the definition, cross-checked by its own truth-table self-test"],
}

E2_META = {
    "rule": ("each evaluation is one seeded history on one live PCBO/PCSO: an objective, then <=5 comparison (C08: also logical) constraints "
             "interleaved with copy / refresh / info round trip / objective edits / pure observations; the per-step oracle is evaluated on the "
             "delta observed in the live model; a run is non-trivial if a constraint created ancillas, an unsatisfiable warning was seen, a "
             "history op (copy/refresh/info) was applied, or (C08) the end-of-run workflow oracle ran; distinct = distinct digests of the event log"),
    "expected_probes": ["constraints_with_ancillas", "second_ancilla_bearing_constraint", "history_copy", "history_refresh", "history_info_roundtrip"],
    "components": {"real": REAL_PY, "stub": ["none: faults are history-level (copy / refresh / info round trip between constraints, objective edits)"]},
    "assumptions": ["integer-coefficient constraint polynomials, dyadic weights; exact truth tables (RefPoly) as oracle",
                    "unary-slack constraints capped at 7 ancillas, <= 12 variables per truth table (C08 reduced forms <= 14)"],
}

PROPS = {
    "C13": {
        "engine": "e3",
        "quick": {"runs": 320000, "block": 5000, "wall": 75},
        "thorough": {"runs": 8000000, "block": 20000, "wall": 540},
        "meta": {
            "rule": ("each evaluation is one seeded history of <=60 list operations on <=3 live AnnealResults with plain-list "
                     "shadows; a run is non-trivial if an empty receiver, an empty argument, a self-argument or the removal/"
                     "overwrite of the current minimum occurred; distinct = distinct digests of the per-op event log"),
            "expected_probes": ["empty_receiver", "empty_argument", "self_argument", "removed_current_minimum", "tie_on_minimum"],
            "components": {"real": ["qubovert/sim/_anneal_results.py"] + REAL_PY, "stub": ["none (no seam needed: pure in-memory state machine)"]},
            "assumptions": ["reference model is a plain Python list of (state,value,spin) records",
                            "reflected k*res and in-place *= are not issued (the property lists only *)"],
        },
    },
    "C11": {
        "engine": "e4",
        "quick": {"runs": 64000, "block": 1000, "wall": 75},
        "thorough": {"runs": 1500000, "block": 4000, "wall": 560},
        "meta": E4_META,
    },
    "C12": {
        "engine": "e4",
        "quick": {"runs": 32000, "block": 500, "wall": 75},
        "thorough": {"runs": 600000, "block": 2000, "wall": 560},
        "meta": E4_META,
    },
    "C17": {
        "engine": "e4",
        "quick": {"stages": [{"variant": "sim", "runs": 32000, "block": 500, "wall": 35},
                             {"variant": "san", "runs": 32000, "block": 500, "wall": 45}]},
        "thorough": {"stages": [{"variant": "sim", "runs": 400000, "block": 2000, "wall": 280},
                                {"variant": "san", "runs": 300000, "block": 1000, "wall": 600}]},
        "meta": E4_META,
    },
    "C05": {
        "engine": "e1",
        "quick": {"runs": 90000, "block": 1500, "wall": 75},
        "thorough": {"runs": 2000000, "block": 5000, "wall": 560},
        "meta": E1_META,
    },
    "C14": {
        "engine": "e1",
        "quick": {"runs": 90000, "block": 1500, "wall": 75},
        "thorough": {"runs": 2000000, "block": 5000, "wall": 560},
        "meta": E1_META,
    },
    "C19": {
        "engine": "e1",
        "quick": {"runs": 120000, "block": 2000, "wall": 75},
        "thorough": {"runs": 2000000, "block": 5000, "wall": 560},
        "meta": E1_META,
    },
    "C02": {
        "engine": "e2",
        "quick": {"runs": 100000, "block": 2000, "wall": 75},
        "thorough": {"runs": 1500000, "block": 5000, "wall": 560},
        "meta": E2_META,
    },
    "C03": {
        "engine": "e2",
        "quick": {"runs": 80000, "block": 2000, "wall": 75},
        "thorough": {"runs": 1500000, "block": 5000, "wall": 560},
        "meta": E2_META,
    },
    "C08": {
        "engine": "e2",
        "quick": {"runs": 80000, "block": 2000, "wall": 75},
        "thorough": {"runs": 600000, "block": 2000, "wall": 560},
        "meta": E2_META,
    },
}
