"""MANIFEST.setup_cmd: verify the offline toolchain the checks need."""
import os
import shutil
import sys

sys.path.insert(0, os.path.dirname(os.path.dirname(os.path.abspath(__file__))))
from simq.build import Build, BuildError  # noqa: E402

ok = True
for tool in ("gcc", "clang"):
    if not shutil.which(tool):
        print("missing tool:", tool)
        ok = False
try:
    import numpy  # noqa: F401
except Exception as e:
    print("numpy missing in /venv:", e)
    ok = False
for variant in ("sim", "san"):
    try:
        with Build(variant) as b:
            print("build", variant, "ok")
    except BuildError as e:
        print("build", variant, "FAILED:", e)
        ok = False
os.makedirs("/verif/evidence", exist_ok=True)
os.makedirs("/verif/replays", exist_ok=True)
sys.exit(0 if ok else 1)
