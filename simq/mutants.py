"""Sensitivity campaign: hand-written mutations of /repo (applied to scratch
copies only).  Each entry: (name, property, relative file, old text, new text,
expect) with expect = 'caught' or 'equivalent' (must NOT be flagged)."""

M = []


def m(name, prop, path, old, new, expect="caught", count=1):
    M.append({"name": name, "prop": prop, "path": path, "old": old, "new": new, "expect": expect, "count": count})


AR = "qubovert/sim/_anneal_results.py"
QC = "qubovert/sim/src/anneal_quso.c"
PC = "qubovert/sim/src/anneal_puso.c"
CW = "qubovert/sim/_canneal.c"
AP = "qubovert/sim/_anneal.py"
RC = "qubovert/sim/src/random.c"

# ---------------------------------------------------------------- C13
m("c13_pop_no_recompute", "C13", AR, """        res = super().pop(index)
        if res == self.best:
            self.best = _recompute_best(self)""", """        res = super().pop(index)""")
m("c13_insert_le", "C13", AR, """        if self.best is None or result.value < self.best.value:
            self.best = result
        super().insert(index, result)""", """        if self.best is None or result.value > self.best.value:
            self.best = result
        super().insert(index, result)""")
m("c13_extend_unconditional", "C13", AR, """            if other.best is not None and (
                    self.best is None or other.best < self.best):
                self.best = other.best
            super().extend(other)""", """            if other.best is not None:
                self.best = other.best
            super().extend(other)""")
m("c13_getitem_slice_list", "C13", AR, """        if isinstance(index, slice):
            res = AnnealResults(res)
        return res""", """        return res""")
m("c13_to_spin_no_map", "C13", AR, """        return AnnealResult(boolean_to_spin(self.state), self.value, True)""",
  """        return AnnealResult(dict(self.state), self.value, True)""")
m("c13_remove_no_recompute", "C13", AR, """        super().remove(result)
        if result == self.best:
            self.best = _recompute_best(self)""", """        super().remove(result)
        if result is self.best:
            self.best = _recompute_best(self)""")
m("c13_clear_keeps_best", "C13", AR, """        self.best = None
        super().clear()""", """        super().clear()""")
m("c13_delitem_only_when_best", "C13", AR, """        super().__delitem__(index)
        self.best = _recompute_best(self)""", """        super().__delitem__(index)
        if not len(self):
            self.best = None""")

# ---------------------------------------------------------------- C11
m("c11_offset_dropped", "C11", AP, """        res.add_state(state, values[i] + offset, True)  # spin is True""", """        res.add_state(state, values[i], True)  # spin is True""")
m("c11_to_boolean_dropped_qubo", "C11", AP, """        temperature_range, schedule, in_order, seed
    ).to_boolean()


def anneal_qubo""", """        temperature_range, schedule, in_order, seed
    )


def anneal_qubo""")
m("c11_quso_value_no_h", "C11", QC, """        subgraph_energy = h[i];
        for(j=0; j<num_neighbors[i]; j++) {
            neighbor = neighbors[index[i] + j];
            if(neighbor >= i) {""", """        subgraph_energy = 0;
        for(j=0; j<num_neighbors[i]; j++) {
            neighbor = neighbors[index[i] + j];
            if(neighbor >= i) {""")
m("c11_values_before_last_sweep", "C11", QC, """        single_anneal_quso(
            len_state, state,
            h, num_neighbors, neighbors, J, index,
            len_Ts, Ts, in_order, &rng
        );

        // add the new state and the new value to the buffers
        values[i] = quso_value(
            len_state, state, h, num_neighbors, neighbors, J, index
        );""", """        values[i] = quso_value(
            len_state, state, h, num_neighbors, neighbors, J, index
        );
        single_anneal_quso(
            len_state, state,
            h, num_neighbors, neighbors, J, index,
            len_Ts, Ts, in_order, &rng
        );""")
m("c11_puso_value_index_stuck", "C11", PC, """            product *= state[terms[index]];
            index++;""", """            product *= state[terms[index]];
            if(_ == 0) index++;""")
m("c11_wrapper_state_stride", "C11", CW, """PyLong_FromLong(states[i * len_state + j])""", """PyLong_FromLong(states[i * len_state + (i ? 0 : j)])""")
m("c11_num_anneals_minus_one", "C11", AP, """    states, values = c_anneal_quso(
        h, num_neighbors, neighbors, J,  # describe the problem
        Ts, num_anneals, int(in_order), init_state,  # describe the algorithm""", """    states, values = c_anneal_quso(
        h, num_neighbors, neighbors, J,  # describe the problem
        Ts, max(num_anneals - (num_anneals > 4), 1), int(in_order), init_state,  # describe the algorithm""")
m("c11_neighbor_ge_equivalent", "C11", QC, """            if(neighbor >= i) {""", """            if(neighbor > i) {""", expect="equivalent")
m("c11_reverse_mapping_misapplied", "C11", AP, """        state = {reverse_mapping[k]: v for k, v in enumerate(states[i])}""",
  """        state = {reverse_mapping[len(states[i]) - 1 - k]: v for k, v in enumerate(states[i])}""")

# ---------------------------------------------------------------- C12
m("c12_recompute_factor", "C12", QC, """        flip_spin_dE[n] += 4. * state[spin] * state[n] * J[index[spin] + j];""",
  """        flip_spin_dE[n] += 2. * state[spin] * state[n] * J[index[spin] + j];""")
m("c12_update_after_flip", "C12", QC, """                recompute_flip_dE(
                    i, flip_spin_dE, state,
                    num_neighbors, neighbors, J,
                    index
                );
                state[i] *= -1;""", """                state[i] *= -1;
                recompute_flip_dE(
                    i, flip_spin_dE, state,
                    num_neighbors, neighbors, J,
                    index
                );""")
m("c12_accept_uphill", "C12", QC, """            if(dE <= 0 || (T > 0 && rand_double(rng) < exp(-dE / T))) {""", """            if(dE >= 0 || (T > 0 && rand_double(rng) < exp(-dE / T))) {""")
m("c12_exp_half", "C12", QC, """rand_double(rng) < exp(-dE / T))) {""", """rand_double(rng) < exp(-dE / (2 * T)))) {""")
m("c12_exp_times_T", "C12", PC, """rand_double(rng) < exp(-dE / T))) {""", """rand_double(rng) < exp(-dE * T))) {""")
m("c12_rand_int_short", "C12", QC, """            i = in_order ? j : rand_int(rng, len_state);""", """            i = in_order ? j : rand_int(rng, len_state > 1 ? len_state - 1 : 1);""")
m("c12_seed_le_zero", "C12", RC, """    if(seed < 0) {""", """    if(seed <= 0) {""")
m("c12_py_seed_or", "C12", AP, """        seed if seed is not None else -1
    )
    return _package_spin_results(
        states, values, model.offset, reverse_mapping
    )


# boolean annealing functions""", """        seed or -1
    )
    return _package_spin_results(
        states, values, model.offset, reverse_mapping
    )


# boolean annealing functions""")
m("c12_in_order_inverted", "C12", PC, """            i = in_order ? j : rand_int(rng, len_state);""", """            i = in_order ? rand_int(rng, len_state) : j;""")
m("c12_init_state_ignored_later", "C12", QC, """            if(initial_state_provided) {
                state[j] = states[i * len_state + j];""", """            if(initial_state_provided && i == 0) {
                state[j] = states[i * len_state + j];""")
m("c12_le_to_lt_equivalent", "C12", QC, """            if(dE <= 0 || (T > 0 &&""", """            if(dE < 0 || (T > 0 &&""", expect="equivalent")
m("c12_drop_T_guard_equivalent", "C12", PC, """            if(dE <= 0 || (T > 0 && rand_double(rng) < exp(-dE / T))) {""", """            if(dE <= 0 || (rand_double(rng) < exp(-dE / T))) {""", expect="equivalent")
m("c12_puso_dE_sign", "C12", PC, """            dE = -2 * puso_subgraph_value(""", """            dE = 2 * puso_subgraph_value(""")
m("c12_puso_subgraph_skips_last", "C12", PC, """    for(i=1; i<=subgraphs[spin][0]; i++) {""", """    for(i=1; i<=subgraphs[spin][0] - (subgraphs[spin][0] > 2); i++) {""")

# ---------------------------------------------------------------- C17
m("c17_flip_dE_short", "C17", QC, """    flip_spin_dE = (double*)malloc(len_state * sizeof(double));""", """    flip_spin_dE = (double*)malloc((len_state - 1) * sizeof(double));""")
m("c17_index_term_minus_one", "C17", PC, """            j = terms[index[term] + i];  // spin j is involved in term `term`.""", """            j = terms[index[term] + i - (term > 3)];  // spin j is involved in term `term`.""", expect="maybe")
m("c17_realloc_k", "C17", PC, """            subgraphs[j] = (long*)realloc(subgraphs[j], (k+1) * sizeof(long));""", """            subgraphs[j] = (long*)realloc(subgraphs[j], k * sizeof(long));""")
m("c17_missing_free", "C17", QC, """    free(index); free(state);""", """    free(index);""")
m("c17_states_uninitialised", "C17", CW, """        // encode the initial state into the buffers.
        for(i=0; i<num_anneals; i++) {
            for(j=0; j<len_state; j++) {
                states[i * len_state + j] = (int)PyLong_AsLong(
                    PyList_GetItem(py_initial_state, j)
                );
            }
        }
    }

    // call C source code in src/ directory
    anneal_quso(""", """        // encode the initial state into the buffers.
        for(i=0; i<1; i++) {
            for(j=0; j<len_state; j++) {
                states[i * len_state + j] = (int)PyLong_AsLong(
                    PyList_GetItem(py_initial_state, j)
                );
            }
        }
    }

    // call C source code in src/ directory
    anneal_quso(""")
m("c17_double_free", "C17", PC, """    free(state); free(index);""", """    free(state); free(index); if(len_state > 5) free(index);""")
m("c17_index0_regression", "C17", PC, """    for(long term=0; term<num_terms; term++) {
        // only write index[0] if there is at least one term
        index[term] = term ? index[term-1] + num_couplings[term-1] : 0;""", """    index[0] = 0;
    for(long term=0; term<num_terms; term++) {
        // only write index[0] if there is at least one term
        index[term] = term ? index[term-1] + num_couplings[term-1] : 0;""")
