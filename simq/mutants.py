"""Sensitivity campaign: hand-written mutations of /repo (applied to scratch
copies only).  Each entry: (name, property, relative file, old text, new text,
expect) with expect = 'caught' or 'equivalent' (must NOT be flagged)."""

M = []


def m(name, prop, path, old, new, expect="caught", count=1):
    M.append({"name": name, "prop": prop, "path": path, "old": old, "new": new, "expect": expect, "count": count})


AR = "qubovert/sim/_anneal_results.py"
QC = "qubovert/sim/src/anneal_quso.c"
PC = "qubovert/sim/src/anneal_puso.c"
CW = "qubovert/sim/_canneal.c"
AP = "qubovert/sim/_anneal.py"
RC = "qubovert/sim/src/random.c"

# ---------------------------------------------------------------- C13
m("c13_pop_no_recompute", "C13", AR, """        res = super().pop(index)
        if res == self.best:
            self.best = _recompute_best(self)""", """        res = super().pop(index)""")
m("c13_insert_le", "C13", AR, """        if self.best is None or result.value < self.best.value:
            self.best = result
        super().insert(index, result)""", """        if self.best is None or result.value > self.best.value:
            self.best = result
        super().insert(index, result)""")
m("c13_extend_unconditional", "C13", AR, """            if other.best is not None and (
                    self.best is None or other.best < self.best):
                self.best = other.best
            super().extend(other)""", """            if other.best is not None:
                self.best = other.best
            super().extend(other)""")
m("c13_getitem_slice_list", "C13", AR, """        if isinstance(index, slice):
            res = AnnealResults(res)
        return res""", """        return res""")
m("c13_to_spin_no_map", "C13", AR, """        return AnnealResult(boolean_to_spin(self.state), self.value, True)""",
  """        return AnnealResult(dict(self.state), self.value, True)""")
m("c13_remove_no_recompute", "C13", AR, """        super().remove(result)
        if result == self.best:
            self.best = _recompute_best(self)""", """        super().remove(result)
        if result is self.best:
            self.best = _recompute_best(self)""")
m("c13_clear_keeps_best", "C13", AR, """        self.best = None
        super().clear()""", """        super().clear()""")
m("c13_delitem_only_when_best", "C13", AR, """        super().__delitem__(index)
        self.best = _recompute_best(self)""", """        super().__delitem__(index)
        if not len(self):
            self.best = None""")

# ---------------------------------------------------------------- C11
m("c11_offset_dropped", "C11", AP, """        res.add_state(state, values[i] + offset, True)  # spin is True""", """        res.add_state(state, values[i], True)  # spin is True""")
m("c11_to_boolean_dropped_qubo", "C11", AP, """        temperature_range, schedule, in_order, seed
    ).to_boolean()


def anneal_qubo""", """        temperature_range, schedule, in_order, seed
    )


def anneal_qubo""")
m("c11_quso_value_no_h", "C11", QC, """        subgraph_energy = h[i];
        for(j=0; j<num_neighbors[i]; j++) {
            neighbor = neighbors[index[i] + j];
            if(neighbor >= i) {""", """        subgraph_energy = 0;
        for(j=0; j<num_neighbors[i]; j++) {
            neighbor = neighbors[index[i] + j];
            if(neighbor >= i) {""")
m("c11_values_before_last_sweep", "C11", QC, """        single_anneal_quso(
            len_state, state,
            h, num_neighbors, neighbors, J, index,
            len_Ts, Ts, in_order, &rng
        );

        // add the new state and the new value to the buffers
        values[i] = quso_value(
            len_state, state, h, num_neighbors, neighbors, J, index
        );""", """        values[i] = quso_value(
            len_state, state, h, num_neighbors, neighbors, J, index
        );
        single_anneal_quso(
            len_state, state,
            h, num_neighbors, neighbors, J, index,
            len_Ts, Ts, in_order, &rng
        );""")
m("c11_puso_value_index_stuck", "C11", PC, """            product *= state[terms[index]];
            index++;""", """            product *= state[terms[index]];
            if(_ == 0) index++;""")
m("c11_wrapper_state_stride", "C11", CW, """PyLong_FromLong(states[i * len_state + j])""", """PyLong_FromLong(states[i * len_state + (i ? 0 : j)])""")
m("c11_num_anneals_minus_one", "C11", AP, """    states, values = c_anneal_quso(
        h, num_neighbors, neighbors, J,  # describe the problem
        Ts, num_anneals, int(in_order), init_state,  # describe the algorithm""", """    states, values = c_anneal_quso(
        h, num_neighbors, neighbors, J,  # describe the problem
        Ts, max(num_anneals - (num_anneals > 4), 1), int(in_order), init_state,  # describe the algorithm""")
m("c11_neighbor_ge_equivalent", "C11", QC, """            if(neighbor >= i) {""", """            if(neighbor > i) {""", expect="equivalent")
m("c11_reverse_mapping_misapplied", "C11", AP, """        state = {reverse_mapping[k]: v for k, v in enumerate(states[i])}""",
  """        state = {reverse_mapping[len(states[i]) - 1 - k]: v for k, v in enumerate(states[i])}""")

# ---------------------------------------------------------------- C12
m("c12_recompute_factor", "C12", QC, """        flip_spin_dE[n] += 4. * state[spin] * state[n] * J[index[spin] + j];""",
  """        flip_spin_dE[n] += 2. * state[spin] * state[n] * J[index[spin] + j];""")
m("c12_update_after_flip", "C12", QC, """                recompute_flip_dE(
                    i, flip_spin_dE, state,
                    num_neighbors, neighbors, J,
                    index
                );
                state[i] *= -1;""", """                state[i] *= -1;
                recompute_flip_dE(
                    i, flip_spin_dE, state,
                    num_neighbors, neighbors, J,
                    index
                );""")
m("c12_accept_uphill", "C12", QC, """            if(dE <= 0 || (T > 0 && rand_double(rng) < exp(-dE / T))) {""", """            if(dE >= 0 || (T > 0 && rand_double(rng) < exp(-dE / T))) {""")
m("c12_exp_half", "C12", QC, """rand_double(rng) < exp(-dE / T))) {""", """rand_double(rng) < exp(-dE / (2 * T)))) {""")
m("c12_exp_times_T", "C12", PC, """rand_double(rng) < exp(-dE / T))) {""", """rand_double(rng) < exp(-dE * T))) {""")
m("c12_rand_int_short", "C12", QC, """            i = in_order ? j : rand_int(rng, len_state);""", """            i = in_order ? j : rand_int(rng, len_state > 1 ? len_state - 1 : 1);""")
m("c12_seed_le_zero", "C12", RC, """    if(seed < 0) {""", """    if(seed <= 0) {""")
m("c12_py_seed_or", "C12", AP, """        seed if seed is not None else -1
    )
    return _package_spin_results(
        states, values, model.offset, reverse_mapping
    )


# boolean annealing functions""", """        seed or -1
    )
    return _package_spin_results(
        states, values, model.offset, reverse_mapping
    )


# boolean annealing functions""")
m("c12_in_order_inverted", "C12", PC, """            i = in_order ? j : rand_int(rng, len_state);""", """            i = in_order ? rand_int(rng, len_state) : j;""")
m("c12_init_state_ignored_later", "C12", QC, """            if(initial_state_provided) {
                state[j] = states[i * len_state + j];""", """            if(initial_state_provided && i == 0) {
                state[j] = states[i * len_state + j];""")
m("c12_le_to_lt_equivalent", "C12", QC, """            if(dE <= 0 || (T > 0 &&""", """            if(dE < 0 || (T > 0 &&""", expect="equivalent")
m("c12_drop_T_guard_equivalent", "C12", PC, """            if(dE <= 0 || (T > 0 && rand_double(rng) < exp(-dE / T))) {""", """            if(dE <= 0 || (rand_double(rng) < exp(-dE / T))) {""", expect="equivalent")
m("c12_puso_dE_sign", "C12", PC, """            dE = -2 * puso_subgraph_value(""", """            dE = 2 * puso_subgraph_value(""")
m("c12_puso_subgraph_skips_last", "C12", PC, """    for(i=1; i<=subgraphs[spin][0]; i++) {""", """    for(i=1; i<=subgraphs[spin][0] - (subgraphs[spin][0] > 2); i++) {""")

# ---------------------------------------------------------------- C17
m("c17_flip_dE_short", "C17", QC, """    flip_spin_dE = (double*)malloc(len_state * sizeof(double));""", """    flip_spin_dE = (double*)malloc((len_state - 1) * sizeof(double));""")
m("c17_index_term_minus_one", "C17", PC, """            j = terms[index[term] + i];  // spin j is involved in term `term`.""", """            j = terms[index[term] + i - (term > 3)];  // spin j is involved in term `term`.""", expect="maybe")
m("c17_realloc_k", "C17", PC, """            subgraphs[j] = (long*)realloc(subgraphs[j], (k+1) * sizeof(long));""", """            subgraphs[j] = (long*)realloc(subgraphs[j], k * sizeof(long));""")
m("c17_missing_free", "C17", QC, """    free(index); free(state);""", """    free(index);""")
m("c17_states_uninitialised", "C17", CW, """        // encode the initial state into the buffers.
        for(i=0; i<num_anneals; i++) {
            for(j=0; j<len_state; j++) {
                states[i * len_state + j] = (int)PyLong_AsLong(
                    PyList_GetItem(py_initial_state, j)
                );
            }
        }
    }

    // call C source code in src/ directory
    anneal_quso(""", """        // encode the initial state into the buffers.
        for(i=0; i<1; i++) {
            for(j=0; j<len_state; j++) {
                states[i * len_state + j] = (int)PyLong_AsLong(
                    PyList_GetItem(py_initial_state, j)
                );
            }
        }
    }

    // call C source code in src/ directory
    anneal_quso(""")
m("c17_double_free", "C17", PC, """    free(state); free(index);""", """    free(state); free(index); if(len_state > 5) free(index);""")
m("c17_index0_regression", "C17", PC, """    for(long term=0; term<num_terms; term++) {
        // only write index[0] if there is at least one term
        index[term] = term ? index[term-1] + num_couplings[term-1] : 0;""", """    index[0] = 0;
    for(long term=0; term<num_terms; term++) {
        // only write index[0] if there is at least one term
        index[term] = term ? index[term-1] + num_couplings[term-1] : 0;""")

PB = "qubovert/_pcbo.py"
PS = "qubovert/_pcso.py"
PU = "qubovert/_pubo.py"
PSU = "qubovert/_puso.py"
DA = "qubovert/utils/_dict_arithmetic.py"
PM = "qubovert/utils/_pubomatrix.py"
PSM = "qubovert/utils/_pusomatrix.py"
BO = "qubovert/utils/_bo_parentclass.py"
VA = "qubovert/utils/_values.py"
SB = "qubovert/utils/_solve_bruteforce.py"
INF = "qubovert/utils/_info.py"
QB = "qubovert/_qubo.py"
QS = "qubovert/_quso.py"

# ---------------------------------------------------------------- C02
m("c02_num_bits_off_by_one", "C02", PB, """                for i in range(num_bits(-min_val, log_trick)):
                    v = pow(2, i) if log_trick else 1
                    P[(self._next_ancilla,)] += v""", """                for i in range(max(num_bits(-min_val, log_trick) - 1, 0)):
                    v = pow(2, i) if log_trick else 1
                    P[(self._next_ancilla,)] += v""")
m("c02_lt_shift_dropped", "C02", PB, """            P = P + 1
            min_val += 1
            max_val += 1""", """            P = P + 0
            min_val += 1
            max_val += 1""")
m("c02_next_ancilla_not_incremented", "C02", PB, """        self._ancilla += 1
        return "__a%d" % (self._ancilla - 1)""", """        self._ancilla += (self._ancilla < 2)
        return "__a%d" % (self._ancilla - 1)""")
m("c02_copy_loses_ancilla", "C02", PB, """            self._ancilla = args[0].num_ancillas""", """            self._ancilla = 0""")
m("c02_gt_bounds_swapped", "C02", PB, """        min_val, max_val = _get_bounds(P, bounds)
        bounds = -max_val, -min_val
        self.add_constraint_lt_zero(""", """        min_val, max_val = _get_bounds(P, bounds)
        bounds = -min_val, -max_val
        self.add_constraint_lt_zero(""")
m("c02_eq_square_dropped", "C02", PB, """            self += lam * P * P""", """            self += lam * P""")
m("c02_le_records_slack", "C02", PB, """            # don't mutate the P that we put in self._constraints
            P = P.copy()
            if min_val:""", """            # don't mutate the P that we put in self._constraints
            if min_val:""")
m("c02_is_valid_le_strict", "C02", PB, """        if any(v.value(solution) > 0
               for v in self._constraints.get("le", [])):""", """        if any(v.value(solution) >= 0
               for v in self._constraints.get("le", [])):""")
m("c02_info_drops_ancillas", "C02", INF, """        model._ancilla = info["num_ancillas"]""", """        model._ancilla = 0""")
m("c02_ne_sign_slack_short", "C02", PB, """            for i in range(num_bits(max_val - min_val - 1, log_trick)):""", """            for i in range(num_bits(max(max_val - min_val - 2, 0), log_trick)):""", expect="maybe")

# ---------------------------------------------------------------- C03
m("c03_counter_not_returned", "C03", PS, """        h = _empty_pcbo(self).add_constraint_le_zero(
            puso_to_pubo(H), lam=lam, log_trick=log_trick,
            bounds=bounds, suppress_warnings=suppress_warnings
        )
        self._ancilla = h._ancilla""", """        h = _empty_pcbo(self).add_constraint_le_zero(
            puso_to_pubo(H), lam=lam, log_trick=log_trick,
            bounds=bounds, suppress_warnings=suppress_warnings
        )""")
m("c03_empty_pcbo_starts_at_zero", "C03", PS, """    h._ancilla = pcso._ancilla""", """    h._ancilla = 0""")
m("c03_penalty_not_converted", "C03", PS, """        h = _empty_pcbo(self).add_constraint_eq_zero(
            puso_to_pubo(H), lam=lam,
            bounds=bounds, suppress_warnings=suppress_warnings
        )
        self._ancilla = h._ancilla
        self += pubo_to_puso(h)""", """        h = _empty_pcbo(self).add_constraint_eq_zero(
            puso_to_pubo(H), lam=lam,
            bounds=bounds, suppress_warnings=suppress_warnings
        )
        self._ancilla = h._ancilla
        self += h""")

# ---------------------------------------------------------------- C05
m("c05_rsub_sign", "C05", DA, """        return -1*self + other""", """        return self - other""")
m("c05_imul_no_snapshot", "C05", DA, """            items, oitems = tuple(self.items()), tuple(other.items())
            self.clear()""", """            items, oitems = tuple(self.items()), other.items()
            self.clear()""")
m("c05_spin_squash_parity", "C05", PSM, """            (x for x in set(key) if key.count(x) % 2),""", """            (x for x in set(key) if key.count(x) % 2 or key.count(x) > 3),""")
m("c05_setitem_keeps_zero", "C05", DA, """        if value:
            super().__setitem__(key, value)
        else:
            self.pop(key, 0)""", """        if value or key == ():
            super().__setitem__(key, value)
        else:
            self.pop(key, 0)""")
m("c05_copy_returns_self", "C05", DA, """        return self.__class__(self)""", """        return self if len(self) > 3 else self.__class__(self)""")
m("c05_puso_value_parity", "C05", VA, """        v * pow(-1, [z[i] for i in k].count(-1) % 2)""", """        v * pow(-1, [z[i] for i in set(k)].count(-1) % 2)""")
m("c05_isub_adds_offset", "C05", DA, """        else:
            self[()] -= other
        return self""", """        else:
            self[()] -= abs(other)
        return self""")
m("c05_ipow_one_too_many", "C05", DA, """            for _ in range(exponent-1):
                self *= old""", """            for _ in range(exponent-1 + (exponent > 2)):
                self *= old""")
m("c05_quso_value_len2", "C05", VA, """        v * (z[k[0]] if k else 1) * (z[k[1]] if len(k) > 1 else 1)""", """        v * (z[k[0]] if k else 1) * (z[k[-1]] if len(k) > 1 else 1)""", expect="equivalent")

# ---------------------------------------------------------------- C08
m("c08_default_lam_half", "C08", PU, """        return 1 + abs(v)""", """        return abs(v) / 2""")
m("c08_default_lam_abs_equivalent", "C08", PU, """        return 1 + abs(v)""", """        return abs(v)""", expect="maybe")
m("c08_ancilla_start_n_minus_1", "C08", PU, """        ancilla = self.num_binary_variables""", """        ancilla = max(self.num_binary_variables - 1, 0)""")
m("c08_convert_solution_off_by_one", "C08", QB, """            for i in range(self.num_binary_variables)""", """            for i in range(max(self.num_binary_variables - 1, 0))""")
m("c08_remove_ancilla_prefix", "C08", PB, """        return {k: v for k, v in solution.items() if str(k)[:3] != "__a"}""", """        return {k: v for k, v in solution.items() if str(k)[:2] != "__" and str(k)[:1] != "a"}""")
# under C08's hypothesis (every weight > max f - min f) an infeasible assignment is strictly worse than the constrained optimum,
# so dropping the validity filter cannot change what solve_bruteforce returns: near-equivalent
m("c08_solve_ignores_validity", "C08", PM, """        return solve_pubo_bruteforce(self,
                                     all_solutions, self.is_solution_valid)[1]""", """        return solve_pubo_bruteforce(self,
                                     all_solutions)[1]""", expect="maybe")
# ---------------------------------------------------------------- C14
m("c14_nbv_per_key", "C14", PM, """            for i in filter(lambda x: x not in self._variables, k):
                self._variables.add(i)
                self._num_binary_variables += 1""", """            for i in filter(lambda x: x not in self._variables, k):
                self._variables.add(i)
            self._num_binary_variables = len(self._variables) - (len(self._variables) > 4)""")
m("c14_refresh_keeps_mapping", "C14", PM, """        d = self.copy()
        super().clear()
        self.__init__(d)""", """        d = self.copy()
        m = getattr(self, "_mapping", None)
        super().clear()
        self.__init__(d)
        if m is not None:
            self._mapping = m""")
m("c14_ancilla_start_max_index", "C14", PU, """        ancilla = self.num_binary_variables""", """        ancilla = max(self._mapping.values(), default=0)""")
m("c14_clear_keeps_variables", "C14", PM, """        super().clear()
        self.__init__()""", """        v = self._variables
        super().clear()
        self.__init__()
        self._variables = v""")
m("c14_create_pubo_no_variables", "C14", PSU, """        P._variables = self.variables
        P._num_binary_variables = self.num_binary_variables""", """        pass""")
m("c14_zero_assign_regression", "C14", BO, """            if i not in self._mapping and i in self._variables:""", """            if i not in self._mapping:""")
m("c14_imul_regression", "C14", PB, """        self._constraints, self._ancilla = constraints, ancilla
        return self""", """        self._constraints = constraints
        return self""")
m("c14_degree_not_updated", "C14", PM, """            self._degree = max(self._degree, len(k))""", """            self._degree = max(self._degree, min(len(k), 3))""")

# ---------------------------------------------------------------- C19
m("c19_constraints_returns_stored", "C19", PB, """        return {k: [x.copy() for x in v] for k, v in self._constraints.items()}""", """        return {k: list(v) for k, v in self._constraints.items()}""")
m("c19_mapping_returns_internal", "C19", BO, """        return self._mapping.copy()""", """        return self._mapping""")
m("c19_copy_ctor_shares_constraints", "C19", PB, """            self._constraints = args[0].constraints""", """            self._constraints = args[0]._constraints""")
m("c19_solve_no_offset_restore", "C19", SB, """            return offset, ({} if not all_solutions else [{}])
        D[()] = offset""", """            return offset, ({} if not all_solutions else [{}])
        if len(D) < 3:
            D[()] = offset""")
m("c19_info_drops_ancillas", "C19", INF, """        model._ancilla = info["num_ancillas"]""", """        model._ancilla = 0""")
m("c19_variables_returns_internal", "C19", PM, """        return self._variables.copy()""", """        return self._variables""")
m("c19_info_terms_aliased", "C19", INF, """        terms=dict(model),""", """        terms=model,""")
m("c19_pcso_constraints_stored", "C19", PS, """        return {k: [x.copy() for x in v] for k, v in self._constraints.items()}""", """        return self._constraints""")
m("c19_subvalue_mutates_values", "C19", "qubovert/utils/_subgraph.py", """    D = type(G)()
    for k, v in G.items():
        if not isinstance(k, tuple):
            raise ValueError("Keys must be tuples")
        key = tuple(filter(lambda x: x not in values, k))""", """    D = type(G)()
    values.setdefault("__seen", 1)
    for k, v in G.items():
        if not isinstance(k, tuple):
            raise ValueError("Keys must be tuples")
        key = tuple(filter(lambda x: x not in values, k))""")

# ---------------------------------------------------------------- fault-inside-operation mutants
m("c13_extend_not_exception_safe", "C13", AR, """        else:
            for x in other:
                self.append(x)""", """        else:
            super().extend(other)
            self.best = _recompute_best(self)""")

# ---------------------------------------------------------------- process-global state (needs earlier runs in the same process)
m("c13_global_call_counter", "C13", AR, """        if self.best is None or result.value < self.best.value:
            self.best = result
        super().append(result)""", """        AnnealResults._n_appends = getattr(AnnealResults, "_n_appends", 0) + 1
        if self.best is None or (result.value < self.best.value and AnnealResults._n_appends % 700):
            self.best = result
        super().append(result)""")
