"""RefPoly — exact multilinear polynomials over boolean {0,1} or spin {1,-1}
variables.  Written from the mathematical definition; imports nothing from
qubovert.  Coefficients are Fractions; truth tables are exact int64 arrays
(values scaled by the common denominator)."""
from fractions import Fraction
from math import gcd

import numpy as np

from .common import sort_key

BOOL, SPIN = "bool", "spin"

_ARANGE = {}
_POPPAR = {}


def _arange(n):
    a = _ARANGE.get(n)
    if a is None:
        a = _ARANGE[n] = np.arange(1 << n, dtype=np.int64)
    return a


def _parity(n):
    """(-1)^popcount(r) helper table: parity bit of r for r < 2^n."""
    p = _POPPAR.get(n)
    if p is None:
        r = _arange(n)
        x = r.copy()
        x ^= x >> 32
        x ^= x >> 16
        x ^= x >> 8
        x ^= x >> 4
        x ^= x >> 2
        x ^= x >> 1
        p = _POPPAR[n] = (x & 1).astype(np.int64)
    return p


def frac(v):
    if isinstance(v, Fraction):
        return v
    if isinstance(v, int):
        return Fraction(v)
    if isinstance(v, float):
        return Fraction(v)        # exact for every finite double
    # numpy / sympy numbers
    try:
        return Fraction(float(v))
    except Exception:
        raise TypeError("not a number: %r" % (v,))


def squash(kind, key):
    """Canonical monomial: set of labels (boolean, x^2 = x) or the labels of odd
    multiplicity (spin, z^2 = 1)."""
    if kind == BOOL:
        return frozenset(key)
    odd = set()
    for l in key:
        if l in odd:
            odd.discard(l)
        else:
            odd.add(l)
    return frozenset(odd)


class RefPoly:
    __slots__ = ("kind", "t")

    def __init__(self, kind, terms=None):
        self.kind = kind
        self.t = {}
        if terms:
            for k, v in (terms.items() if isinstance(terms, dict) else terms):
                self.add_term(k, v)

    # ------------------------------------------------------------ construction
    def add_term(self, key, v):
        k = key if isinstance(key, frozenset) else squash(self.kind, key)
        v = frac(v)
        if v == 0:
            return
        n = self.t.get(k, 0) + v
        if n == 0:
            self.t.pop(k, None)
        else:
            self.t[k] = n

    def set_term(self, key, v):
        k = squash(self.kind, key)
        v = frac(v)
        if v == 0:
            self.t.pop(k, None)
        else:
            self.t[k] = v

    def get(self, key):
        return self.t.get(squash(self.kind, key), Fraction(0))

    def copy(self):
        p = RefPoly(self.kind)
        p.t = dict(self.t)
        return p

    @classmethod
    def const(cls, kind, c):
        p = cls(kind)
        p.add_term(frozenset(), c)
        return p

    @classmethod
    def var(cls, kind, label):
        p = cls(kind)
        p.add_term(frozenset([label]), 1)
        return p

    # ------------------------------------------------------------ arithmetic
    def __add__(self, o):
        o = self._co(o)
        p = self.copy()
        for k, v in o.t.items():
            p.add_term(k, v)
        return p

    __radd__ = __add__

    def __neg__(self):
        p = RefPoly(self.kind)
        p.t = {k: -v for k, v in self.t.items()}
        return p

    def __sub__(self, o):
        return self + (-self._co(o))

    def __rsub__(self, o):
        return self._co(o) - self

    def __mul__(self, o):
        o = self._co(o)
        p = RefPoly(self.kind)
        for k1, v1 in self.t.items():
            for k2, v2 in o.t.items():
                k = (k1 | k2) if self.kind == BOOL else (k1 ^ k2)
                p.add_term(k, v1 * v2)
        return p

    __rmul__ = __mul__

    def __pow__(self, n):
        p = RefPoly.const(self.kind, 1)
        for _ in range(n):
            p = p * self
        return p

    def scale(self, c):
        c = frac(c)
        p = RefPoly(self.kind)
        if c != 0:
            p.t = {k: v * c for k, v in self.t.items()}
        return p

    def _co(self, o):
        if isinstance(o, RefPoly):
            if o.kind != self.kind:
                raise TypeError("kind mismatch")
            return o
        return RefPoly.const(self.kind, o)

    def __eq__(self, o):
        return isinstance(o, RefPoly) and self.kind == o.kind and self.t == o.t

    def __hash__(self):
        return hash((self.kind, frozenset(self.t.items())))

    def __repr__(self):
        items = sorted(((sorted(k, key=sort_key), v) for k, v in self.t.items()), key=lambda kv: (len(kv[0]), [sort_key(x) for x in kv[0]]))
        return "RefPoly[%s]{%s}" % (self.kind, ", ".join("%s: %s" % (tuple(k), v) for k, v in items))

    # ------------------------------------------------------------ inspection
    def variables(self):
        s = set()
        for k in self.t:
            s |= k
        return s

    def degree(self):
        return max((len(k) for k in self.t), default=0)

    def offset(self):
        return self.t.get(frozenset(), Fraction(0))

    def is_zero(self):
        return not self.t

    def is_integer(self):
        return all(v.denominator == 1 for v in self.t.values())

    def value(self, x):
        """x maps label -> 0/1 (boolean) or 1/-1 (spin)."""
        tot = Fraction(0)
        for k, v in self.t.items():
            m = 1
            for l in k:
                m *= x[l]
                if m == 0:
                    break
            tot += v * m
        return tot

    def denominator(self):
        d = 1
        for v in self.t.values():
            d = d * v.denominator // gcd(d, v.denominator)
        return d

    def table(self, order, den=None):
        """Exact values over all 2^n assignments as int64 = value * den.

        Row r assigns variable order[j] the bit (r >> j) & 1 =: b, meaning
        boolean value b, spin value 1 - 2 b (boolean 0 <-> spin +1)."""
        n = len(order)
        if n > 22:
            raise ValueError("table too large")
        pos = {l: j for j, l in enumerate(order)}
        if den is None:
            den = self.denominator()
        r = _arange(n)
        out = np.zeros(1 << n, dtype=np.int64)
        for k, v in self.t.items():
            c = v * den
            if c.denominator != 1:
                raise ValueError("denominator does not divide")
            c = int(c)
            if abs(c) >= 1 << 40:
                raise OverflowError("coefficient too large for exact table")
            mask = 0
            for l in k:
                mask |= 1 << pos[l]
            if self.kind == BOOL:
                if mask == 0:
                    out += c
                else:
                    out += c * ((r & mask) == mask)
            else:
                if mask == 0:
                    out += c
                else:
                    par = r & mask
                    # parity of popcount
                    x = par.copy()
                    x ^= x >> 16
                    x ^= x >> 8
                    x ^= x >> 4
                    x ^= x >> 2
                    x ^= x >> 1
                    out += c * (1 - 2 * (x & 1))
        return out, den

    @staticmethod
    def row_assignment(kind, order, r):
        if kind == BOOL:
            return {l: (r >> j) & 1 for j, l in enumerate(order)}
        return {l: 1 - 2 * ((r >> j) & 1) for j, l in enumerate(order)}

    @staticmethod
    def assignment_row(kind, order, x):
        r = 0
        for j, l in enumerate(order):
            b = x[l] if kind == BOOL else (1 - x[l]) // 2
            r |= int(b) << j
        return r

    def extrema(self, order=None):
        order = order if order is not None else sorted(self.variables(), key=sort_key)
        tab, den = self.table(order)
        return Fraction(int(tab.min()), den), Fraction(int(tab.max()), den)

    # ------------------------------------------------------------ conversion
    def to_spin(self):
        """boolean -> spin under x = (1 - z)/2."""
        assert self.kind == BOOL
        out = RefPoly(SPIN)
        for k, v in self.t.items():
            term = RefPoly.const(SPIN, v)
            for l in k:
                f = RefPoly(SPIN)
                f.add_term(frozenset(), Fraction(1, 2))
                f.add_term(frozenset([l]), Fraction(-1, 2))
                term = term * f
            out = out + term
        return out

    def to_bool(self):
        """spin -> boolean under z = 1 - 2x."""
        assert self.kind == SPIN
        out = RefPoly(BOOL)
        for k, v in self.t.items():
            term = RefPoly.const(BOOL, v)
            for l in k:
                f = RefPoly(BOOL)
                f.add_term(frozenset(), 1)
                f.add_term(frozenset([l]), -2)
                term = term * f
            out = out + term
        return out

    def relabel(self, f):
        p = RefPoly(self.kind)
        for k, v in self.t.items():
            p.add_term(tuple(f(l) for l in k), v)
        return p


def from_mapping(kind, d):
    """RefPoly of any dict-like {key tuple: number} (e.g. a qubovert model read
    through dict.items, bypassing the model's own accessors)."""
    p = RefPoly(kind)
    for k, v in dict.items(d) if isinstance(d, dict) else d.items():
        p.add_term(tuple(k), v)
    return p


def selftest():
    """RefPoly against brute-force definition on a fixed tiny example."""
    import itertools
    for kind in (BOOL, SPIN):
        a = RefPoly(kind, {("x", "y"): 2, ("y",): -1, (): 3, ("x", "x", "z"): Fraction(1, 2)})
        b = RefPoly(kind, {("z",): 1, ("x",): -2})
        order = ["x", "y", "z"]
        for op in ("add", "sub", "mul", "pow"):
            c = {"add": a + b, "sub": a - b, "mul": a * b, "pow": a ** 3}[op]
            tab, den = c.table(order)
            for r in range(8):
                x = RefPoly.row_assignment(kind, order, r)
                av, bv = a.value(x), b.value(x)
                want = {"add": av + bv, "sub": av - bv, "mul": av * bv, "pow": av ** 3}[op]
                assert c.value(x) == want, (kind, op, x)
                assert Fraction(int(tab[r]), den) == want, (kind, op, x)
                assert RefPoly.assignment_row(kind, order, x) == r
    p = RefPoly(BOOL, {("a", "b"): 3, ("a",): -1})
    for r in range(4):
        x = RefPoly.row_assignment(BOOL, ["a", "b"], r)
        z = {l: 1 - 2 * v for l, v in x.items()}
        assert p.to_spin().value(z) == p.value(x)
        assert p.to_spin().to_bool() == p
    return True
