#!/bin/bash
# Run every claimed check in /verif (evidence written in place).  usage: run_all.sh quick|thorough [copy-evidence-dir]
tier=${1:-quick}; keep=$2
rc_all=0
for P in C02 C03 C05 C08 C11 C12 C13 C14 C17 C19; do
  r=$(timeout 3400 /venv/bin/python /verif/simq/cli.py check $P --tier $tier 2>&1); rc=$?
  echo "$P rc=$rc $(echo "$r" | tail -1)"
  echo "$r" | grep -E "^VIOLATION|^HARNESS|^KNOWN|^warning|^  oracle" | cut -c1-400
  [ $rc -ne 0 ] && rc_all=1
  [ -n "$keep" ] && mkdir -p "$keep" && cp /verif/evidence/$P.json "$keep/$P.json"
done
exit $rc_all
