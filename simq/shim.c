/*
 * Simulator-owned seams for qubovert's C annealing kernels.
 *
 * The repository's sources are compiled UNMODIFIED with
 *   -Drand_init=verif_rand_init -Drand_double=verif_rand_double
 *   -Drand_int=verif_rand_int -Dmalloc=verif_malloc -Drealloc=verif_realloc
 *   -Dfree=verif_free              (kernels + wrapper)
 *   -Dtime=verif_time              (random.c only)
 * so every random draw, every clock read and every heap operation of the
 * kernels lands here.  This translation unit is compiled WITHOUT those
 * renames, so rand_init/rand_double/rand_int below are the repository's real
 * implementations (random.c + pcg_basic.c) and malloc/free are libc's.
 */
#include <stdint.h>
#include <stdlib.h>
#include <string.h>
#include <time.h>
#include "random.h"

/* ------------------------------------------------------------------ RNG */

typedef struct { int kind; int bound; double value; } verif_draw_t;
/* kind: 0 = init(seed in bound), 1 = double, 2 = int(bound) */

int  verif_mode = 0;            /* 0 pass-through, 1 scripted */
int  verif_log_enabled = 1;
verif_draw_t *verif_log = NULL;
long verif_log_len = 0, verif_log_cap = 0, verif_log_dropped = 0;
long verif_log_limit = 1L << 22;

double *verif_script_d = NULL; long verif_script_d_len = 0, verif_script_d_pos = 0;
long   *verif_script_i = NULL; long verif_script_i_len = 0, verif_script_i_pos = 0;
int  verif_script_cycle = 0;    /* 1: wrap around instead of under-running */
long verif_underrun_d = 0, verif_underrun_i = 0;
long verif_n_init = 0, verif_n_double = 0, verif_n_int = 0;
long verif_bad_bound = 0;       /* rand_int called with bound <= 0 */
extern long verif_bad_int, verif_bad_double;

static void log_draw(int kind, int bound, double value) {
    if (!verif_log_enabled) return;
    if (verif_log_len >= verif_log_limit) { verif_log_dropped++; return; }
    if (verif_log_len >= verif_log_cap) {
        long ncap = verif_log_cap ? verif_log_cap * 2 : 4096;
        verif_draw_t *n = (verif_draw_t*)realloc(verif_log, ncap * sizeof(verif_draw_t));
        if (!n) { verif_log_dropped++; return; }
        verif_log = n; verif_log_cap = ncap;
    }
    verif_log[verif_log_len].kind = kind;
    verif_log[verif_log_len].bound = bound;
    verif_log[verif_log_len].value = value;
    verif_log_len++;
}

rng_t verif_rand_init(int seed) {
    verif_n_init++;
    log_draw(0, seed, 0.0);
    return rand_init(seed);
}

double verif_rand_double(rng_t *rng) {
    double v;
    verif_n_double++;
    if (verif_mode == 1 && verif_script_d_len > 0 &&
        (verif_script_d_pos < verif_script_d_len || verif_script_cycle)) {
        v = verif_script_d[verif_script_d_pos % verif_script_d_len];
        verif_script_d_pos++;
    } else {
        if (verif_mode == 1) verif_underrun_d++;
        v = rand_double(rng);
    }
    if (!(v >= 0.0 && v < 1.0)) verif_bad_double++;
    log_draw(1, 0, v);
    return v;
}

int verif_rand_int(rng_t *rng, int stop) {
    int v;
    verif_n_int++;
    if (stop <= 0) { verif_bad_bound++; log_draw(2, stop, 0.0); return 0; }
    if (verif_mode == 1 && verif_script_i_len > 0 &&
        (verif_script_i_pos < verif_script_i_len || verif_script_cycle)) {
        long s = verif_script_i[verif_script_i_pos % verif_script_i_len];
        verif_script_i_pos++;
        v = (int)(((s % stop) + stop) % stop);
    } else {
        if (verif_mode == 1) verif_underrun_i++;
        v = rand_int(rng, stop);
    }
    if (v < 0 || v >= stop) verif_bad_int++;
    log_draw(2, stop, (double)v);
    return v;
}

/* ------------------------------------------------------- raw 32-bit seam */
/* random.c is additionally compiled with -Dpcg32_random_r=verif_raw32 and
 * -Dpcg32_boundedrand_r=verif_raw_bounded, so the repository's rand_double /
 * rand_int compute their results from raw words the simulator can script
 * (0, 0xFFFFFFFF, ...): values PCG emits with probability 2^-32 per draw. */

int  verif_raw_mode = 0;        /* 0 real PCG words, 1 scripted raw words */
uint32_t *verif_raw_script = NULL; long verif_raw_len = 0, verif_raw_pos = 0;
int  verif_raw_cycle = 0;
long verif_n_raw = 0, verif_raw_underrun = 0;
long verif_bad_int = 0;         /* rand_int returned a value outside [0, bound) */
long verif_bad_double = 0;      /* rand_double returned a value outside [0, 1) */

uint32_t verif_raw32(pcg32_random_t *rng) {
    verif_n_raw++;
    if (verif_raw_mode == 1 && verif_raw_len > 0 && (verif_raw_pos < verif_raw_len || verif_raw_cycle)) {
        uint32_t v = verif_raw_script[verif_raw_pos % verif_raw_len];
        verif_raw_pos++;
        return v;
    }
    if (verif_raw_mode == 1) verif_raw_underrun++;
    return pcg32_random_r(rng);
}

uint32_t verif_raw_bounded(pcg32_random_t *rng, uint32_t bound) {
    if (verif_raw_mode != 1) return pcg32_boundedrand_r(rng, bound);
    /* PCG's own rejection loop, fed from the scripted words (bounded so a cycling script cannot spin) */
    uint32_t threshold = -bound % bound;
    int tries;
    for (tries = 0; tries < 64; tries++) {
        uint32_t r = verif_raw32(rng);
        if (r >= threshold) return r % bound;
    }
    verif_raw_underrun++;           /* the script never passes the rejection test: fall through to the real generator */
    return pcg32_boundedrand_r(rng, bound);
}

void verif_set_raw_script(const uint32_t *v, long n, int cycle) {
    free(verif_raw_script); verif_raw_script = NULL;
    if (n > 0) { verif_raw_script = (uint32_t*)malloc(n * sizeof(uint32_t)); memcpy(verif_raw_script, v, n * sizeof(uint32_t)); }
    verif_raw_len = n; verif_raw_pos = 0; verif_raw_cycle = cycle; verif_raw_mode = n > 0 ? 1 : 0;
}

/* ---------------------------------------------------------------- clock */

#define VERIF_CLOCK_MAX 64
long verif_clock[VERIF_CLOCK_MAX];
int  verif_clock_len = 0;
long verif_clock_reads = 0;

time_t verif_time(time_t *t) {
    long v;
    if (verif_clock_len > 0) {
        long k = verif_clock_reads < verif_clock_len ? verif_clock_reads : verif_clock_len - 1;
        v = verif_clock[k];
    } else {
        v = 1700000000L;
    }
    verif_clock_reads++;
    if (t) *t = (time_t)v;
    return (time_t)v;
}

/* ------------------------------------------------------------ allocator */

long verif_allocs = 0, verif_frees = 0, verif_reallocs = 0;
long verif_bytes = 0, verif_live_bytes = 0, verif_highwater = 0;
long verif_canary_bad = 0;      /* a red zone was overwritten */
long verif_bad_free = 0;        /* free/realloc of a pointer we do not own */
long verif_zero_allocs = 0;     /* malloc(0) requests */
long verif_neg_allocs = 0;      /* absurd (>= 2^40 bytes) requests */

#ifndef VERIF_NO_REDZONE
#define RZ 64
#define CANARY 0xCB
#define HDR (sizeof(size_t) * 3)            /* size, magic, index in the live table */
#define MAGIC ((size_t)0x53494D5156455249ULL)

static unsigned char **live = NULL;         /* growable table of live blocks (O(1) insert / remove through the header index) */
static long n_live = 0, cap_live = 0;

static void fill(unsigned char *p, size_t n, int c) { memset(p, c, n); }
static size_t hdr_get(unsigned char *base, int k) { size_t v; memcpy(&v, base + k * sizeof(size_t), sizeof(size_t)); return v; }
static void hdr_set(unsigned char *base, int k, size_t v) { memcpy(base + k * sizeof(size_t), &v, sizeof(size_t)); }

static int check_block(unsigned char *base, size_t size) {
    size_t i; int bad = 0;
    for (i = HDR; i < RZ; i++) if (base[i] != CANARY) bad = 1;
    for (i = 0; i < RZ; i++) if (base[RZ + size + i] != CANARY) bad = 1;
    return bad;
}

static int owned(unsigned char *base) {
    long idx;
    if (hdr_get(base, 1) != MAGIC) return 0;
    idx = (long)hdr_get(base, 2);
    return idx >= 0 && idx < n_live && live[idx] == base;
}

static void live_remove(unsigned char *base) {
    long idx = (long)hdr_get(base, 2);
    live[idx] = live[n_live - 1];
    hdr_set(live[idx], 2, (size_t)idx);
    n_live--;
}

void *verif_malloc(size_t size) {
    unsigned char *base;
    if (size == 0) verif_zero_allocs++;
    if (size >= ((size_t)1 << 40)) { verif_neg_allocs++; return NULL; }
    if (n_live >= cap_live) {
        long ncap = cap_live ? cap_live * 2 : 1024;
        unsigned char **nl = (unsigned char**)realloc(live, ncap * sizeof(unsigned char*));
        if (!nl) return NULL;
        live = nl; cap_live = ncap;
    }
    base = (unsigned char*)malloc(size + 2 * RZ);
    if (!base) return NULL;
    hdr_set(base, 0, size); hdr_set(base, 1, MAGIC); hdr_set(base, 2, (size_t)n_live);
    fill(base + HDR, RZ - HDR, CANARY);
    fill(base + RZ, size, 0xA5);
    fill(base + RZ + size, RZ, CANARY);
    live[n_live++] = base;
    verif_allocs++; verif_bytes += (long)size; verif_live_bytes += (long)size;
    if (verif_live_bytes > verif_highwater) verif_highwater = verif_live_bytes;
    return base + RZ;
}

void verif_free(void *p) {
    unsigned char *base; size_t size;
    if (!p) return;
    base = (unsigned char*)p - RZ;
    if (!owned(base)) { verif_bad_free++; return; }   /* not ours (or double free): do not touch */
    size = hdr_get(base, 0);
    if (check_block(base, size)) verif_canary_bad++;
    live_remove(base);
    verif_frees++; verif_live_bytes -= (long)size;
    hdr_set(base, 1, 0);
    fill(base + RZ, size, 0xDD);
    free(base);
}

void *verif_realloc(void *p, size_t size) {
    unsigned char *base; size_t old; void *q;
    if (!p) return verif_malloc(size);
    base = (unsigned char*)p - RZ;
    if (!owned(base)) { verif_bad_free++; return NULL; }
    old = hdr_get(base, 0);
    if (check_block(base, old)) verif_canary_bad++;
    verif_reallocs++;
    q = verif_malloc(size);
    if (!q) return NULL;
    verif_allocs--;            /* a realloc is neither an alloc nor a free */
    memcpy(q, p, old < size ? old : size);
    live_remove(base);
    verif_live_bytes -= (long)old;
    hdr_set(base, 1, 0);
    fill(base + RZ, old, 0xDD);
    free(base);
    return q;
}

long verif_live_blocks(void) { return n_live; }

long verif_check_live(void) {   /* red zones of blocks still alive */
    long i, bad = 0;
    for (i = 0; i < n_live; i++) bad += check_block(live[i], hdr_get(live[i], 0));
    return bad;
}

void verif_release_live(void) { /* after a reported leak: forget, do not free */
    n_live = 0; verif_live_bytes = 0;
}

#else  /* sanitizer build: ASan owns red zones and poisoning */

void *verif_malloc(size_t size) {
    void *p;
    if (size == 0) verif_zero_allocs++;
    p = malloc(size);
    if (p) { memset(p, 0xA5, size); verif_allocs++; verif_bytes += (long)size; }
    return p;
}
void verif_free(void *p) { if (p) verif_frees++; free(p); }
void *verif_realloc(void *p, size_t size) {
    if (!p) return verif_malloc(size);
    verif_reallocs++;
    return realloc(p, size);
}
long verif_live_blocks(void) { return verif_allocs - verif_frees; }
long verif_check_live(void) { return 0; }
void verif_release_live(void) { verif_frees = verif_allocs; }

#endif

/* -------------------------------------------------------------- control */

void verif_reset(void) {
    verif_mode = 0; verif_log_enabled = 1;
    verif_log_len = 0; verif_log_dropped = 0;
    verif_script_d_len = verif_script_d_pos = 0;
    verif_script_i_len = verif_script_i_pos = 0;
    verif_script_cycle = 0;
    verif_underrun_d = verif_underrun_i = 0;
    verif_n_init = verif_n_double = verif_n_int = 0; verif_bad_bound = 0;
    verif_clock_len = 0; verif_clock_reads = 0;
    verif_raw_mode = 0; verif_raw_len = verif_raw_pos = 0; verif_raw_cycle = 0;
    verif_n_raw = verif_raw_underrun = 0; verif_bad_int = verif_bad_double = 0;
    verif_allocs = verif_frees = verif_reallocs = 0;
    verif_bytes = 0; verif_highwater = verif_live_bytes;
    verif_canary_bad = verif_bad_free = verif_zero_allocs = verif_neg_allocs = 0;
}

void verif_set_script_d(const double *v, long n) {
    free(verif_script_d); verif_script_d = NULL;
    if (n > 0) { verif_script_d = (double*)malloc(n * sizeof(double)); memcpy(verif_script_d, v, n * sizeof(double)); }
    verif_script_d_len = n; verif_script_d_pos = 0;
}

void verif_set_script_i(const long *v, long n) {
    free(verif_script_i); verif_script_i = NULL;
    if (n > 0) { verif_script_i = (long*)malloc(n * sizeof(long)); memcpy(verif_script_i, v, n * sizeof(long)); }
    verif_script_i_len = n; verif_script_i_pos = 0;
}

void verif_set_clock(const long *v, int n) {
    int i;
    if (n > VERIF_CLOCK_MAX) n = VERIF_CLOCK_MAX;
    for (i = 0; i < n; i++) verif_clock[i] = v[i];
    verif_clock_len = n; verif_clock_reads = 0;
}

long verif_get_log(int *kinds, int *bounds, double *values, long cap) {
    long i, n = verif_log_len < cap ? verif_log_len : cap;
    for (i = 0; i < n; i++) { kinds[i] = verif_log[i].kind; bounds[i] = verif_log[i].bound; values[i] = verif_log[i].value; }
    return n;
}
