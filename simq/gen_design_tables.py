#!/venv/bin/python
"""Regenerates the measured tables of DESIGN.md (§14.2 mutants, §14.4 reach) from the reports / evidence files."""
import json
import os
import re

VERIF = os.path.dirname(os.path.dirname(os.path.abspath(__file__)))
PROPS = ["C02", "C03", "C05", "C08", "C11", "C12", "C13", "C14", "C17", "C19"]


def replace_table(text, header_prefix, rows):
    """Replace the markdown table whose header line starts with header_prefix (header + separator kept)."""
    lines = text.split("\n")
    i = next(k for k, l in enumerate(lines) if l.startswith(header_prefix))
    j = i + 2
    while j < len(lines) and lines[j].startswith("|"):
        j += 1
    return "\n".join(lines[:i + 2] + rows + lines[j:])


def mutant_rows():
    rep = json.load(open(os.path.join(VERIF, "selftest", "mutants_report.json")))
    rows = []
    for r in sorted(rep, key=lambda r: (r["prop"], r["name"])):
        caught = r.get("rc") == 1 and r.get("violations", 0) > 0
        first = ""
        for d in r.get("detail", []):
            m = re.search(r"oracle=(\w+)", d)
            if m:
                first = m.group(1)
                break
            if "AddressSanitizer" in d or "runtime error" in d or "Fatal Python" in d:
                first = "sanitizer / crash"
                break
        if r.get("expect") == "equivalent":
            res = "flagged (FALSE ALARM)" if caught else "not flagged"
        else:
            res = "caught" if caught else "not caught"
        rows.append("| %s | %s | %s | %s | %s |" % (r["name"], r["prop"], r.get("expect"), res, first))
    return rows, len(rep)


def load(path):
    try:
        return json.load(open(path))
    except Exception:
        return None


def reach_rows():
    rows = []
    for p in PROPS:
        q = load(os.path.join(VERIF, "evidence", p + ".json"))
        t = load(os.path.join(VERIF, "selftest", "thorough_evidence", p + ".json"))

        def cell(e):
            if not e:
                return ["-", "-", "-"]
            c = e["coverage"]
            return [str(c.get("evaluations", c.get("runs", "-"))), str(c.get("distinct_nontrivial", "-")), str(int(round(e.get("wall_s", 0))))]
        ff = (t or q or {}).get("coverage", {}).get("faults_fired", {})
        top = sorted(ff.items(), key=lambda kv: -kv[1])[:9]
        faults = ", ".join("%s %d" % (k, v) for k, v in sorted(top)) or "caller-side events, see probes"
        rows.append("| %s | %s | %s | %s |" % (p, " | ".join(cell(q)), " | ".join(cell(t)), faults))
    return rows


def main():
    path = os.path.join(VERIF, "DESIGN.md")
    s = open(path).read()
    rows, n = mutant_rows()
    s = replace_table(s, "| mutant | property |", rows)
    s = re.sub(r"^\d+ hand-written mutations", "%d hand-written mutations" % n, s, flags=re.M)
    s = replace_table(s, "| property | quick runs |", reach_rows())
    open(path, "w").write(s)
    print("DESIGN.md tables regenerated: %d mutants" % n)


if __name__ == "__main__":
    main()
