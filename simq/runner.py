"""Orchestrator: build from /repo, shard run indices over fresh worker
interpreters, collect, minimise, consult known findings, write evidence."""
import concurrent.futures as cf
import json
import os
import shutil
import subprocess
import sys
import tempfile
import time

from . import common
from .build import Build, BuildError, PY, GUARD

HERE = os.path.dirname(os.path.abspath(__file__))
VERIF = os.path.dirname(HERE)
OUT = os.environ.get("VERIF_OUT", VERIF)      # evidence/ and replays/ go here (redirected for scratch mutant runs)
WORKER = os.path.join(HERE, "worker.py")
NPROC = int(os.environ.get("VERIF_JOBS", "16"))

EXIT_OK, EXIT_VIOLATION, EXIT_HARNESS = 0, 1, 2


class WorkerCrash(Exception):
    def __init__(self, msg, rc=None, output="", oplog=None):
        super().__init__(msg)
        self.rc, self.output, self.oplog = rc, output, oplog


def call_worker(build, job, hashseed, timeout, tmpdir, tag):
    jf = os.path.join(tmpdir, "job-%s.json" % tag)
    of = os.path.join(tmpdir, "out-%s.json" % tag)
    with open(jf, "w") as f:
        json.dump(job, f)
    env = build.env(hashseed)
    try:
        p = subprocess.run([PY, WORKER, jf, of], env=env, cwd=tmpdir, stdout=subprocess.PIPE,
                           stderr=subprocess.STDOUT, text=True, timeout=timeout, errors="replace")
    except subprocess.TimeoutExpired as e:
        raise WorkerCrash("worker timed out after %ss" % timeout, rc="timeout",
                          output=(e.stdout or "")[-4000:] if isinstance(e.stdout, str) else "", oplog=job.get("oplog"))
    if not os.path.exists(of):
        raise WorkerCrash("worker died rc=%s" % p.returncode, rc=p.returncode, output=p.stdout[-6000:], oplog=job.get("oplog"))
    with open(of) as f:
        out = json.load(f)
    os.unlink(of)
    os.unlink(jf)
    if not out.get("ok"):
        raise common.HarnessError("worker error: %s\n%s" % (out.get("error"), out.get("trace", "")))
    return out


def load_known():
    path = os.path.join(VERIF, "known_findings.json")
    if not os.path.exists(path):
        return []
    with open(path) as f:
        return json.load(f).get("findings", [])


def match_known(prop, viol, failing_op):
    """A known (unrepaired) finding suppresses only the specific failure it names."""
    for k in load_known():
        if k.get("property") != prop or k.get("status") != "known":
            continue
        m = k.get("match", {})
        if m.get("oracle") and m["oracle"] != viol["oracle"]:
            continue
        if m.get("op") and m["op"] != (failing_op or {}).get("op"):
            continue
        if m.get("detail_contains") and m["detail_contains"] not in viol.get("detail", ""):
            continue
        if m.get("op_fields"):
            if any((failing_op or {}).get(a) != b for a, b in m["op_fields"].items()):
                continue
        return k
    return None


def failing_op_of(ops, step):
    if step is None or not ops:
        return None
    if step < len(ops):
        return ops[step]
    return {"op": "finish"}


def signature(f):
    op = failing_op_of(f["ops"], f["step"])
    return "%s@%s" % (f["oracle"], (op or {}).get("op"))


class Check:
    def __init__(self, prop, engine, tier, plan, variant="sim", evidence_meta=None, extra_job=None):
        self.prop, self.engine, self.tier, self.plan = prop, engine, tier, plan
        self.variant = variant
        self.meta = evidence_meta or {}
        self.extra_job = extra_job or {}
        self.seed = int(os.environ.get("VERIF_SEED", common.DEFAULT_SEED))
        # "the interpreter never crashes" is C17's own clause; a call that kills the interpreter also fails to "return exactly
        # num_anneals results" (C11)
        self.crash_is_violation = prop in ("C17", "C11")
        self.lines = []

    def say(self, s):
        print(s, flush=True)

    # -------------------------------------------------------------- blocks
    def run_blocks(self, build, tmpdir):
        plan = self.plan
        nblocks = (plan["runs"] + plan["block"] - 1) // plan["block"]
        t0 = time.monotonic()
        wall = plan["wall"]
        agg = {"runs": 0, "ops": 0, "steps": 0, "digests": set(), "probes": {}, "faults": {}, "failures": [],
               "samples": [], "discarded": {}, "extra": {}, "blocks": 0, "stopped_early": 0, "hashseeds": set(),
               "crashes": [], "worker_wall": 0.0}

        def one(b):
            remaining = wall - (time.monotonic() - t0)
            if remaining <= 1:
                return ("skipped", b, None)
            hs = common.block_hashseed(self.seed, self.prop, b)
            job = {"mode": "block", "engine": self.engine, "prop": self.prop, "tier": self.tier,
                   "verif_seed": self.seed, "start": b * plan["block"],
                   "count": min(plan["block"], plan["runs"] - b * plan["block"]),
                   "deadline_s": remaining, "hang_s": remaining + 60, "max_fail": 4}
            job.update(self.extra_job)
            if self.variant == "san" or self.crash_is_violation:
                job["oplog"] = os.path.join(tmpdir, "oplog-%d.jsonl" % b)
            try:
                out = call_worker(build, job, hs, remaining + 90, tmpdir, "b%d" % b)
            except WorkerCrash as e:
                return ("crash", b, (hs, e))
            return ("ok", b, (hs, out))

        with cf.ThreadPoolExecutor(NPROC) as ex:
            results = list(ex.map(one, range(nblocks)))
        for status, b, payload in results:
            if status == "skipped":
                agg["stopped_early"] += 1
                continue
            if status == "crash":
                agg["crashes"].append((b,) + payload)
                continue
            hs, out = payload
            agg["blocks"] += 1
            agg["hashseeds"].add(hs)
            agg["runs"] += out["runs"]
            agg["ops"] += out["ops"]
            agg["steps"] += out["steps"]
            agg["worker_wall"] += out.get("wall_s", 0)
            agg["digests"].update(out["digests"])
            for key in ("probes", "faults", "discarded", "extra"):
                for k, v in out[key].items():
                    agg[key][k] = agg[key].get(k, 0) + v
            for f in out["failures"]:
                f["hashseed"] = hs
                agg["failures"].append(f)
            if len(agg["samples"]) < 3:
                agg["samples"].extend(out["samples"][: 3 - len(agg["samples"])])
            agg.setdefault("harness_traces", []).extend(out.get("harness_traces", [])[:2])
            if out["stopped_early"]:
                agg["stopped_early"] += 1
        agg["wall"] = time.monotonic() - t0
        return agg

    # -------------------------------------------------------------- violations
    def replay_record(self, f):
        return {"property": self.prop, "engine": self.engine, "build": self.variant, "hashseed": f["hashseed"],
                "verif_seed": self.seed, "run": f.get("run"), "cfg": f["cfg"], "ops": f["ops"],
                "expected_violation": {"oracle": f["oracle"], "step": f["step"], "detail": f["detail"]}}

    def minimise(self, build, tmpdir, f, tag):
        rec = self.replay_record(f)
        try:
            out = call_worker(build, {"mode": "minimise", "replay": rec, "budget": 400, "hang_s": 300},
                              f["hashseed"], 330, tmpdir, "min-" + tag)
        except (WorkerCrash, common.HarnessError) as e:
            self.say("note: minimiser failed (%s); keeping the unminimised trace" % e)
            return rec
        if out.get("violation") and out["violation"]["oracle"] == f["oracle"]:
            rec = dict(rec, ops=out["ops"], minimised_from=len(f["ops"]),
                       expected_violation={"oracle": f["oracle"], "step": out["violation"]["step"], "detail": out["violation"]["detail"]})
        return rec

    def confirm(self, build, tmpdir, rec, tag):
        out = call_worker(build, {"mode": "replay", "replay": rec, "hang_s": 120}, rec["hashseed"], 150, tmpdir, "rp-" + tag)
        v = out.get("violation")
        return v is not None and v["oracle"] == rec["expected_violation"]["oracle"]

    def handle_failures(self, build, tmpdir, agg):
        """Returns (n_violations, n_known)."""
        groups = {}
        for f in agg["failures"]:
            groups.setdefault(signature(f), []).append(f)
        nviol = nknown = 0
        unreproduced = []
        os.makedirs(os.path.join(OUT, "replays"), exist_ok=True)
        for gi, (sig, fs) in enumerate(sorted(groups.items())):
            if gi >= 8:
                self.say("note: %d more failure signatures not minimised" % (len(groups) - 8))
                break
            def replayable(x):
                op = failing_op_of(x["ops"], x["step"]) or {}
                return 0 if not (op.get("seed", 0) is None and op.get("op") == "anneal") else 1
            cands = sorted(fs, key=lambda x: (replayable(x), len(x["ops"]), x.get("run", 0)))[:3]
            ok = False
            for ci, f in enumerate(cands):
                rec = self.minimise(build, tmpdir, f, "%d_%d" % (gi, ci))
                ok = self.confirm(build, tmpdir, rec, "%d_%d" % (gi, ci))
                if not ok:
                    # fall back to the unminimised trace
                    rec = self.replay_record(f)
                    ok = self.confirm(build, tmpdir, rec, "%d_%du" % (gi, ci))
                if ok:
                    break
            safe = "".join(c if c.isalnum() else "_" for c in sig)[:60]
            path = os.path.join(OUT, "replays", "%s-%d-%s.json" % (self.prop, self.seed, safe))
            if not ok:
                # the failure may depend on what EARLIER RUNS left behind in the process (module-level / class-level state):
                # replay the run together with its predecessors in the block, then minimise the set of predecessors
                rr = self.cross_run_replay(build, tmpdir, cands[0], str(gi))
                if rr is not None:
                    rec, ok = rr, True
            rec["reproduced_in_fresh_process"] = ok
            with open(path, "w") as fh:
                json.dump(rec, fh, indent=1)
            if not ok:
                # decided after all signatures have been looked at: next to a CONFIRMED violation this is a note (a broken
                # tree may well fail nondeterministically as well); on its own it is a harness error, never a verdict
                unreproduced.append((sig, path))
                continue
            fop = failing_op_of(rec["ops"], rec["expected_violation"]["step"])
            k = match_known(self.prop, rec["expected_violation"], fop) if rec.get("kind") != "runs" else None
            if k is not None:
                nknown += 1
                self.say("KNOWN-FINDING: property=%s %s (replay=%s)" % (self.prop, k.get("what", sig), path))
            else:
                nviol += 1
                self.say("VIOLATION property=%s replay=%s" % (self.prop, path))
                self.say("  oracle=%s step=%s ops=%d detail=%s" % (rec["expected_violation"]["oracle"], rec["expected_violation"]["step"],
                                                                  len(rec["ops"]), rec["expected_violation"]["detail"][:300]))
        for sig, path in unreproduced:
            if nviol:
                self.say("note: failure %s did not reproduce in a fresh process (%s); reported only as a note next to the confirmed violation(s) above" % (sig, path))
            else:
                self.say("HARNESS-ERROR: replay %s does not reproduce in a fresh process" % path)
                raise common.HarnessError("non-reproducible failure %s" % sig)
        return nviol, nknown

    def runs_reproduce(self, build, tmpdir, runs, hashseed, oracle, tag):
        try:
            out = call_worker(build, {"mode": "replay_runs", "engine": self.engine, "prop": self.prop, "tier": self.tier, "verif_seed": self.seed,
                                      "runs": runs, "hang_s": 300}, hashseed, 330, tmpdir, "rr-" + tag)
        except (WorkerCrash, common.HarnessError):
            return None
        v = out.get("violation")
        return v if (v is not None and v["oracle"] == oracle) else None

    def cross_run_replay(self, build, tmpdir, f, tag):
        run = f.get("run")
        if run is None:
            return None
        block = self.plan["block"]
        start = (run // block) * block
        prefix = list(range(start, run))
        n = [0]

        def test(pre):
            n[0] += 1
            if n[0] > 24:
                return False
            return self.runs_reproduce(build, tmpdir, list(pre) + [run], f["hashseed"], f["oracle"], "%s_%d" % (tag, n[0])) is not None
        if not test(prefix):
            return None
        from .minimise import ddmin
        # cheap first: the immediate predecessors
        keep = prefix
        for k in (1, 2, 4, 8, 16):
            if k < len(prefix) and test(prefix[-k:]):
                keep = prefix[-k:]
                break
        if len(keep) > 1 and len(keep) <= 16:
            keep = ddmin(keep, test)
        v = self.runs_reproduce(build, tmpdir, keep + [run], f["hashseed"], f["oracle"], tag + "_final")
        if v is None:
            keep = prefix
            v = self.runs_reproduce(build, tmpdir, keep + [run], f["hashseed"], f["oracle"], tag + "_full")
            if v is None:
                return None
        self.say("note: this failure needs state left behind by earlier runs in the same process: %d predecessor run(s) kept" % len(keep))
        return {"kind": "runs", "property": self.prop, "engine": self.engine, "build": self.variant, "hashseed": f["hashseed"], "verif_seed": self.seed,
                "tier": self.tier, "runs": keep + [run], "cfg": v["cfg"], "ops": v["ops"],
                "expected_violation": {"oracle": v["oracle"], "step": v["step"], "detail": v["detail"]},
                "note": "replay = execute the listed run indices in one fresh process, each regenerated from (verif_seed, property, index); the violation is judged on the last one"}

    def handle_crashes(self, build, tmpdir, agg):
        """A worker that died: in the sanitizer build this is the violation."""
        nviol = 0
        seen = set()
        for b, hs, e in agg["crashes"]:
            sig = san_signature(e.output)
            if sig in seen:
                continue
            seen.add(sig)
            san = is_fatal(self, e)
            if not san:
                self.say("HARNESS-ERROR: worker for block %d failed: %s\n%s" % (b, e, (e.output or "")[-3000:]))
                raise common.HarnessError("worker crash")
            cfg, ops = None, []
            if e.oplog and os.path.exists(e.oplog):
                for line in open(e.oplog):
                    try:
                        j = json.loads(line)
                    except ValueError:
                        continue
                    if "cfg" in j:
                        cfg, ops = j["cfg"], []
                    elif "op" in j:
                        ops.append(j["op"])
            rec = {"property": self.prop, "engine": self.engine, "build": self.variant, "hashseed": hs, "verif_seed": self.seed,
                   "cfg": cfg, "ops": ops, "expected_violation": {"oracle": "sanitizer_report" if self.variant == "san" else "interpreter_crash",
                                                                  "step": len(ops) - 1, "detail": san_summary(e.output)}}
            rec = self.minimise_isolated(build, tmpdir, rec)
            path = os.path.join(OUT, "replays", "%s-%d-%s-b%d.json" % (self.prop, self.seed, "sanitizer" if self.variant == "san" else "crash", b))
            os.makedirs(os.path.dirname(path), exist_ok=True)
            with open(path, "w") as fh:
                json.dump(rec, fh, indent=1)
            fop = failing_op_of(rec["ops"], len(rec["ops"]) - 1)
            k = match_known(self.prop, rec["expected_violation"], fop)
            if k is not None:
                self.say("KNOWN-FINDING: property=%s %s (replay=%s)" % (self.prop, k.get("what"), path))
            else:
                nviol += 1
                self.say("VIOLATION property=%s replay=%s" % (self.prop, path))
                self.say("  " + rec["expected_violation"]["detail"][:400])
        return nviol

    def crashes_in_isolation(self, build, tmpdir, rec, ops, tag):
        r = dict(rec, ops=ops)
        try:
            call_worker(build, {"mode": "replay", "replay": r, "hang_s": 60}, rec["hashseed"], 90, tmpdir, tag)
        except WorkerCrash as e:
            return is_fatal(self, e)
        return False

    def minimise_isolated(self, build, tmpdir, rec):
        """ddmin with one fresh process per attempt (the process dies on a hit)."""
        from .minimise import ddmin
        budget = [40]
        n = [0]

        def test(ops):
            if budget[0] <= 0:
                return False
            budget[0] -= 1
            n[0] += 1
            return self.crashes_in_isolation(build, tmpdir, rec, ops, "iso%d" % n[0])
        if not test(rec["ops"]):
            rec["reproduced_in_fresh_process"] = False
            return rec
        # the last op is the crashing one: try it alone first
        if len(rec["ops"]) > 1 and test(rec["ops"][-1:]):
            ops = rec["ops"][-1:]
        else:
            ops = ddmin(rec["ops"], test)
        rec = dict(rec, ops=ops, reproduced_in_fresh_process=True)
        rec["expected_violation"]["step"] = len(ops) - 1
        return rec

    # -------------------------------------------------------------- evidence
    def write_evidence(self, agg, nviol, nknown, wall, extra_cov=None):
        runs = max(agg["runs"], 0)
        hours = max(agg["wall"], 1e-9) / 3600.0
        cov = {
            "evaluations": runs,
            "distinct_nontrivial": len(agg["digests"]),
            "rule": self.meta.get("rule", ""),
            "samples": agg["samples"][:3] or [{"note": "no short non-trivial run sampled"}],
            "operations_executed": agg["ops"],
            "simulated_steps": agg["steps"],
            "simulated_time_covered": {"note": "this codebase has no timers: simulated time is counted in steps, not seconds",
                                       "api_operations": agg["ops"], "engine_steps": agg["steps"],
                                       "simulated_clock_reads": agg["faults"].get("clock_read", 0)},
            "runs_per_hour": int(runs / hours) if runs else 0,
            "seeds_per_hour": int(runs / hours) if runs else 0,
            "faults_fired": dict(sorted(agg["faults"].items())),
            "probes": dict(sorted(agg["probes"].items())),
            "probes_at_zero": sorted(p for p in self.meta.get("expected_probes", []) if not agg["probes"].get(p) and not agg["faults"].get(p)),
            "discarded_runs": agg["discarded"],
            "blocks": agg["blocks"],
            "blocks_skipped_or_cut_by_wall_cap": agg["stopped_early"],
            "python_hash_seeds_used": len(agg["hashseeds"]),
            "worker_cpu_wall_s": round(agg["worker_wall"], 1),
            "build_variant": self.variant,
            "components": self.meta.get("components", {}),
            "known_findings_reported": nknown,
            "extra": agg["extra"],
        }
        if extra_cov:
            cov.update(extra_cov)
        ev = {"property_id": self.prop, "tier": self.tier, "seed": self.seed, "level": "exploration",
              "coverage": cov, "assumptions": self.meta.get("assumptions", []), "wall_s": round(wall, 2),
              "violations": nviol}
        os.makedirs(os.path.join(OUT, "evidence"), exist_ok=True)
        with open(os.path.join(OUT, "evidence", self.prop + ".json"), "w") as f:
            json.dump(ev, f, indent=1, sort_keys=True)
        return ev

    # -------------------------------------------------------------- main
    def run(self, post=None):
        t0 = time.monotonic()
        stages = self.plan.get("stages") or [dict(self.plan, variant=self.variant)]
        self.say("seed=%d property=%s tier=%s engine=%s stages=%s" % (self.seed, self.prop, self.tier, self.engine,
                                                                      ",".join(st["variant"] for st in stages)))
        tmpdir = tempfile.mkdtemp(prefix="simq-run-")
        total = None
        nviol = nknown = 0
        extra_cov = {}
        try:
            try:
                for si, st in enumerate(stages):
                    self.variant = st["variant"]
                    self.plan = st
                    self.stage_index = si
                    with Build(self.variant) as build:
                        agg = self.run_blocks(build, tmpdir)
                        nviol += self.handle_crashes(build, tmpdir, agg)
                        nv2, nk2 = self.handle_failures(build, tmpdir, agg)
                        nviol += nv2
                        nknown += nk2
                        if post is not None:
                            pv, ec = post(self, build, tmpdir, agg)
                            nviol += pv
                            extra_cov.update(ec or {})
                    agg["per_stage"] = {self.variant: {"runs": agg["runs"], "wall_s": round(agg["wall"], 1), "crashed_blocks": len(agg["crashes"])}}
                    total = agg if total is None else merge_agg(total, agg)
            except BuildError as e:
                self.say("HARNESS-ERROR: build failed: %s" % e)
                return EXIT_HARNESS
            except common.HarnessError as e:
                self.say("HARNESS-ERROR: %s" % e)
                return EXIT_HARNESS
            wall = time.monotonic() - t0
            agg = total
            if agg["runs"] == 0 and not nviol:
                self.say("HARNESS-ERROR: no runs executed")
                return EXIT_HARNESS
            nh = sum(v for k, v in agg["discarded"].items() if k.startswith("harness_exception"))
            if nh:
                self.say("warning: %d run(s) were discarded because the HARNESS raised inside them (not a verdict about the repository); first trace:\n%s" %
                         (nh, (agg.get("harness_traces") or [{}])[0].get("trace", "")))
                if nh > max(20, agg["runs"] // 2000):
                    self.say("HARNESS-ERROR: too many harness exceptions")
                    return EXIT_HARNESS
            self.variant = "+".join(st["variant"] for st in stages)
            extra_cov["per_stage"] = agg.get("per_stage", {})
            ev = self.write_evidence(agg, nviol, nknown, wall, extra_cov)
            c = ev["coverage"]
            self.say("runs=%d ops=%d distinct_nontrivial=%d runs/h=%d wall=%.1fs violations=%d known=%d" %
                     (c["evaluations"], c["operations_executed"], c["distinct_nontrivial"], c["runs_per_hour"], wall, nviol, nknown))
            if c["probes_at_zero"]:
                self.say("warning: probes at zero: %s" % ", ".join(c["probes_at_zero"]))
            return EXIT_VIOLATION if nviol else EXIT_OK
        finally:
            shutil.rmtree(tmpdir, ignore_errors=True)


def merge_agg(a, b):
    for k in ("runs", "ops", "steps", "blocks", "stopped_early", "worker_wall", "wall"):
        a[k] += b[k]
    a["digests"] |= b["digests"]
    a["hashseeds"] |= b["hashseeds"]
    for key in ("probes", "faults", "discarded", "extra"):
        for k, v in b[key].items():
            a[key][k] = a[key].get(k, 0) + v
    a["samples"] = (a["samples"] + b["samples"])[:3]
    a["harness_traces"] = (a.get("harness_traces", []) + b.get("harness_traces", []))[:4]
    a["per_stage"].update(b["per_stage"])
    return a


def is_fatal(chk, e):
    """Did the worker die in a way that IS the violation (sanitizer report, or a signal under C17)?"""
    out = e.output or ""
    if "Sanitizer" in out or "runtime error" in out or e.rc == 77:
        return True
    if chk.crash_is_violation and isinstance(e.rc, int) and (e.rc < 0 or e.rc in (134, 139)) :
        return True
    if chk.crash_is_violation and "Fatal Python error" in out:
        return True
    return False


def san_signature(output):
    """Source location of frame #0 inside the extension (dedupes identical reports)."""
    import re
    for l in (output or "").splitlines():
        m = re.search(r"#0 .* in (\S+) .*?/qubovert/sim/(\S+?):(\d+)", l)
        if m:
            return "%s@%s:%s" % (m.group(1), m.group(2), m.group(3))
    for l in (output or "").splitlines():
        if "runtime error" in l:
            return l.split("runtime error")[-1][:80]
    return "unknown"


def san_summary(output):
    lines = [l for l in (output or "").splitlines() if "ERROR: AddressSanitizer" in l or "runtime error" in l or "SUMMARY" in l or "Fatal Python error" in l
             or l.strip().startswith("#0") or l.strip().startswith("#1") or l.strip().startswith("#2")]
    return " | ".join(lines[:8])[:1500] or (output or "")[-500:]


def replay_file(path):
    """Rebuild from /repo and re-run one replay file in a fresh interpreter."""
    with open(path) as f:
        rec = json.load(f)
    tmpdir = tempfile.mkdtemp(prefix="simq-rp-")
    try:
        with Build(rec.get("build", "sim")) as build:
            try:
                if rec.get("kind") == "runs":
                    out = call_worker(build, {"mode": "replay_runs", "engine": rec["engine"], "prop": rec["property"], "tier": rec.get("tier", "quick"),
                                              "verif_seed": rec["verif_seed"], "runs": rec["runs"], "hang_s": 300}, rec.get("hashseed", 0), 330, tmpdir, "rp")
                else:
                    out = call_worker(build, {"mode": "replay", "replay": rec, "hang_s": 120}, rec.get("hashseed", 0), 150, tmpdir, "rp")
            except WorkerCrash as e:
                class _C:
                    crash_is_violation = rec.get("property") in ("C17", "C11")
                if is_fatal(_C, e):
                    print("VIOLATION property=%s replay=%s" % (rec["property"], path))
                    print("  " + san_summary(e.output))
                    return EXIT_VIOLATION
                print("HARNESS-ERROR: %s\n%s" % (e, e.output))
                return EXIT_HARNESS
        v = out.get("violation")
        if v:
            same = v["oracle"] == rec.get("expected_violation", {}).get("oracle")
            print("VIOLATION property=%s replay=%s" % (rec["property"], path))
            print("  oracle=%s step=%s same_as_recorded=%s detail=%s" % (v["oracle"], v["step"], same, v["detail"][:400]))
            return EXIT_VIOLATION
        print("replay passed: no violation (property=%s)" % rec["property"])
        return EXIT_OK
    except (BuildError, common.HarnessError) as e:
        print("HARNESS-ERROR: %s" % e)
        return EXIT_HARNESS
    finally:
        shutil.rmtree(tmpdir, ignore_errors=True)
