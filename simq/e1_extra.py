"""E1 operations beyond arithmetic: copies, hand-outs (+ mutation faults), pure
API calls (argument immutability), constraints, enumerated/reduced forms."""
import math
import random
from fractions import Fraction

import numpy as np

from .common import Violation, HarnessError, dec_key, dec_label, sort_key
from .refpoly import RefPoly, BOOL, SPIN, frac
from .refcons import RefConstraints, check_penalty, RELS, effective_bounds
from .e1_pool import Slot, MATRIX, DEG2, LABELLED, CONSTRAINED, okey, brief, maxabs


# ===================================================================== copies

def model_equal(w, x, y):
    return type(x) is type(y) and dict(dict.items(x)) == dict(dict.items(y))


def do_copy(w, op):
    a = w.slot_index(op)
    A = w.pool[a]
    if not A.is_model:
        return "skipped"
    how = op["how"]
    o = A.obj
    stored = w.stored_poly(A)
    stale = set(o._variables) != stored.variables()
    if stale:
        w.probe("copy_of_stale_model")
    where = "%s of %s" % (how, A.t)
    t2 = A.t
    try:
        if how == "copy":
            res = o.copy()
        elif how == "ctor":
            res = type(o)(o)
        elif how == "cross":
            t2 = op.get("t", A.t)
            if t2 not in w.T:
                return "skipped"
            big = t2 in DEG2 and w.raw_big(None, w.operand_keys(A))
            if t2 in MATRIX and any((not isinstance(l, int)) or l < 0 for k in w.operand_keys(A) for l in k):
                big = True      # Matrix types accept only non-negative integer labels
            try:
                res = w.T[t2](o)
            except KeyError:
                w.check_untouched(set(), where)
                if big:
                    w.probe("keyerror_degree2")
                    return "keyerror"
                raise
            if t2 in DEG2 and A.shadow.degree() > 2:
                w.fail("missing_keyerror", "%s(%s) accepted degree %d" % (t2, A.t, A.shadow.degree()))
                return "bad"
        elif how == "info":
            return do_info(w, a, A, stale)
        else:
            raise HarnessError("bad copy kind")
    except Violation:
        raise
    except Exception as e:
        w.check_untouched(set(), where)
        w.fail("unexpected_exception", "%s: %s: %s" % (where, type(e).__name__, e))
        return "exc"
    w.check_untouched(set(), where)
    if res is o:
        w.fail("copy_aliases_original", "%s returned the same object" % where)
        return "alias"
    if type(res).__name__ != t2:
        w.fail("wrong_result_type", "%s returned %s" % (where, type(res).__name__))
    if how != "cross":
        if not model_equal(w, res, o):
            w.fail("copy_not_equal", "%s: %r != %r" % (where, dict(res), dict(o)))
        if res.name != o.name:
            w.fail("copy_not_equal", "%s: name %r != %r" % (where, res.name, o.name)) if False else None
        if A.t in CONSTRAINED:
            if res.num_ancillas != o.num_ancillas:
                w.fail("copy_not_equal", "%s: num_ancillas %r != %r" % (where, res.num_ancillas, o.num_ancillas))
                w.fail("ancilla_name_reused", "%s lost the ancilla counter (%r -> %r): the next constraint on the copy reuses a name" % (where, o.num_ancillas, res.num_ancillas))
            if w.read_constraints(res).canonical() != w.read_constraints(o).canonical():
                w.fail("copy_not_equal", "%s: constraints differ" % where)
            for rel, lst in res._constraints.items():
                for i, c in enumerate(lst):
                    if any(c is d for d in o._constraints.get(rel, [])):
                        w.fail("copy_aliases_original", "%s shares constraint object %s[%d] with the original" % (where, rel, i))
                if lst is o._constraints.get(rel):
                    w.fail("copy_aliases_original", "%s shares the constraint list %s with the original" % (where, rel))
    cons = w.read_constraints(res) if t2 in CONSTRAINED else None
    issued = set(A.issued) if (t2 in CONSTRAINED and A.t == t2) else set()
    s = Slot(res, t2, A.shadow.copy(), cons, issued)
    s.foreign = A.foreign or bool(w.anc_vars(A.shadow) - issued)
    w.check_written(w.add_slot(s), where)
    w.probe("copies")
    return how


def info_view(info):
    """Order-insensitive, alias-free view of a get_info() result."""
    out = {"type": info.get("type"), "terms": frozenset(info.get("terms", {}).items()), "name": info.get("name")}
    if "mapping" in info:
        out["mapping"] = frozenset(info["mapping"].items()) if info["mapping"] is not None else None
    if "num_ancillas" in info:
        out["num_ancillas"] = info["num_ancillas"]
    if "constraints" in info:
        out["constraints"] = tuple(sorted((k, tuple(frozenset(dict.items(c)) for c in v)) for k, v in info["constraints"].items()))
    return out


def do_info(w, a, A, stale):
    from qubovert.utils import get_info, create_from_info
    o = A.obj
    where = "create_from_info(get_info(%s))" % A.t
    try:
        info = get_info(o)
        view = info_view(info)
        res = create_from_info(info)
        info2 = get_info(res)
    except Exception as e:
        w.check_untouched(set(), where)
        w.fail("unexpected_exception", "%s: %s: %s" % (where, type(e).__name__, e))
        return "exc"
    w.check_untouched(set(), where)
    if info_view(info) != view:
        w.fail("argument_mutated", "create_from_info mutated the info dict it was given")
    if type(res) is not type(o):
        w.fail("info_roundtrip_mismatch", "%s: type %s" % (where, type(res).__name__))
        return "bad"
    if dict(dict.items(res)) != dict(dict.items(o)):
        w.fail("info_roundtrip_mismatch", "%s: terms %r != %r" % (where, dict(res), dict(o)))
    if res.name != o.name:
        w.fail("info_roundtrip_mismatch", "%s: name %r != %r" % (where, res.name, o.name))
    if A.t in LABELLED and res.mapping != o.mapping:
        w.fail("info_roundtrip_mismatch", "%s: mapping %r != %r" % (where, res.mapping, o.mapping))
    if A.t in CONSTRAINED:
        if res.num_ancillas != o.num_ancillas:
            w.fail("info_roundtrip_mismatch", "%s: num_ancillas %r != %r" % (where, res.num_ancillas, o.num_ancillas))
        if w.read_constraints(res).canonical() != w.read_constraints(o).canonical():
            w.fail("info_roundtrip_mismatch", "%s: constraints differ" % where)
        if o._constraints and o._ancilla:
            w.probe("info_roundtrip_with_constraints_and_ancillas")
            w.interesting = True
    if info_view(info2) != view:
        w.fail("info_not_equal", "%s: get_info of the reconstruction differs: %s vs %s" % (where, brief(info_view(info2)), brief(view)))
    # mutate the info dict afterwards: the reconstruction must not alias it
    try:
        snap_res = w.snap(Slot(res, A.t, A.shadow))
        info["terms"][("__zz",)] = 99
        if info.get("mapping") is not None:
            info["mapping"]["__zz"] = 99
        for k, v in (info.get("constraints") or {}).items():
            for c in v:
                c[("__zz",)] = 5
            v.append(None)
        if w.snap(Slot(res, A.t, A.shadow)) != snap_res:
            w.fail("copy_aliases_original", "%s: the reconstruction aliases the info dict" % where)
    except Violation:
        raise
    except Exception:
        pass
    w.check_untouched(set(), where + " (after mutating the info dict)")
    w.probe("info_roundtrips")
    cons = w.read_constraints(res) if A.t in CONSTRAINED else None
    s = Slot(res, A.t, A.shadow.copy(), cons, set(A.issued))
    s.foreign = A.foreign
    w.check_written(w.add_slot(s), where)
    return "info"


# ===================================================================== hand-outs

def mutate_container(h, mut, r, labels):
    """Injected fault: the caller mutates an object the API handed out."""
    rnd = random.Random(r)
    try:
        if isinstance(h, dict):
            keys = list(h.keys())
            if mut == "insert" or not keys:
                h[("__new", rnd.randrange(9))] = 7
            elif mut == "delete":
                del h[rnd.choice(keys)]
            elif mut == "overwrite":
                k = rnd.choice(keys)
                v = h[k]
                h[k] = 12345 if not isinstance(v, (list, dict)) else v
                if isinstance(v, list):
                    v.append("junk")
                    for c in v:
                        if isinstance(c, dict):
                            c[("__zz",)] = 3
                if isinstance(v, dict):
                    v[("__zz",)] = 3
            elif mut == "clear":
                h.clear()
            else:   # deep
                for v in list(h.values()):
                    if isinstance(v, list):
                        for c in v:
                            if isinstance(c, dict):
                                for k in list(c.keys())[:1]:
                                    c[k] = c[k] + 17
                                c[("__zz",)] = 3
                        v.append("junk")
                    elif isinstance(v, dict):
                        v[("__zz",)] = 3
                        for k in list(v.keys())[:1]:
                            if isinstance(v[k], list):
                                v[k].append("junk")
                                for c in v[k]:
                                    if isinstance(c, dict):
                                        c[("__zz",)] = 3
                h[("__new",)] = 1
        elif isinstance(h, set):
            if mut in ("insert", "deep", "overwrite") or not h:
                h.add("__new")
            elif mut == "delete":
                h.pop()
            else:
                h.clear()
        elif isinstance(h, list):
            h.append("junk")
    except Exception:
        pass


def do_handout(w, op):
    from qubovert.utils import get_info
    a = w.slot_index(op)
    A = w.pool[a]
    if not A.is_model:
        return "skipped"
    o = A.obj
    what = op["what"]
    where = "mutating the object returned by %s.%s" % (A.t, what)
    before = w.snap(A)
    try:
        if what == "mapping":
            h = o.mapping if A.t in LABELLED else None
        elif what == "reverse_mapping":
            h = o.reverse_mapping if A.t in LABELLED else None
        elif what == "variables":
            h = o.variables
        elif what == "constraints":
            h = o.constraints if A.t in CONSTRAINED else None
        elif what == "info":
            h = get_info(o)
        elif what == "Q":
            h = o.Q if hasattr(o, "Q") else None
        elif what == "h":
            h = o.h if hasattr(o, "h") else None
        elif what == "J":
            h = o.J if hasattr(o, "J") else None
        else:
            h = dict(o)
    except Exception as e:
        w.fail("unexpected_exception", "%s.%s: %s: %s" % (A.t, what, type(e).__name__, e))
        return "exc"
    if h is None:
        return "skipped"
    if w.snap(A) != before:
        w.fail("argument_mutated", "reading %s.%s changed the model" % (A.t, what))
    if what == "constraints" and h:
        w.probe("handout_constraints_nonempty")
    mutate_container(h, op["mut"], op.get("r", 0), w.labels)
    w.fault("handout_mutated")
    after = w.snap(A)
    if after != before:
        w.fail("handout_aliases_model", "%s changed the model: %s -> %s" % (where, brief(before), brief(after)))
    w.check_untouched(set(), where)
    w.check_book(A, where)       # whatever the caller did to the object he was handed, the model's own bookkeeping stays sound
    return what


# ===================================================================== pure API calls

def small(A, w, n=8):
    vs = A.shadow.variables() | (set(A.obj._variables) if A.is_model else set())
    return len(vs) <= n


def do_pure(w, op):
    import qubovert as qv
    from qubovert import utils as qu, sim as qs, sat
    a = w.slot_index(op)
    A = w.pool[a]
    if A.t == "num":
        return "skipped"
    o = A.obj
    call = op["call"]
    rnd = random.Random(op.get("r", 0))
    b = w.kind == BOOL
    keys = w.operand_keys(A)
    maxlen = max((len(k) for k in keys), default=0)
    nvars = len({l for k in keys for l in k})
    vals = (0, 1) if b else (1, -1)
    x = {l: rnd.choice(vals) for l in set(w.labels) | {l for k in keys for l in k}}
    x0 = dict(x)
    where = "%s(%s)" % (call, A.t)
    before = w.snap(A)
    ran = True
    try:
        if call == "to_spin_fn":
            if maxlen <= 2 and rnd.random() < 0.5:
                (qu.qubo_to_quso if b else qu.quso_to_qubo)(o)
            else:
                (qu.pubo_to_puso if b else qu.puso_to_pubo)(o)
        elif call in ("to_qubo", "to_quso", "to_pubo", "to_puso", "to_enumerated"):
            if A.is_model and hasattr(o, call) and nvars <= 6:
                getattr(o, call)()
            else:
                ran = False
        elif call == "solve_fn":
            if nvars <= 8:
                fn = {(True, True): qu.solve_qubo_bruteforce, (True, False): qu.solve_pubo_bruteforce,
                      (False, True): qu.solve_quso_bruteforce, (False, False): qu.solve_puso_bruteforce}[(b, maxlen <= 2 and rnd.random() < 0.5)]
                kw = {}
                if rnd.random() < 0.5:
                    kw["all_solutions"] = True
                mode = rnd.choice(["none", "plain", "raises", "observes", "observes"])
                if mode == "plain":
                    kw["valid"] = lambda s: sum(1 for v in s.values() if v == 1) % 2 == 0
                elif mode == "raises":
                    # injected fault: the user's validity callback raises at its k-th invocation (a crash point inside the solver)
                    state = {"n": 0, "k": rnd.randint(1, 6)}

                    def boom(sol):
                        state["n"] += 1
                        if state["n"] >= state["k"]:
                            raise RuntimeError("injected: validity callback fails")
                        return True
                    kw["valid"] = boom
                    w.fault("callback_raises_inside_solver")
                elif mode == "observes":
                    # the callback looks at the very model that is being solved: it must see it unchanged
                    seen = {"bad": None}

                    def peek(sol):
                        if seen["bad"] is None and w.snap(A) != before:
                            seen["bad"] = brief(w.snap(A))
                        return True
                    kw["valid"] = peek
                    w.fault("callback_observes_argument_during_solve")
                try:
                    fn(o, **kw)
                finally:
                    if mode == "observes" and seen["bad"] is not None:
                        w.fail("argument_mutated", "%s: while the solver was running, its validity callback saw the model argument changed: %s (was %s)" %
                               (where, seen["bad"], brief(before)))
            else:
                ran = False
        elif call == "solve_method":
            if A.is_model and nvars <= 8:
                o.solve_bruteforce(all_solutions=rnd.random() < 0.5)
            else:
                ran = False
        elif call == "anneal":
            # the annealers read num_binary_variables / mapping themselves and hand them to C: look first (no extra observation),
            # so that inconsistent bookkeeping is reported as such rather than as a crash of the worker
            if A.is_model:
                w.check_book(A, "before " + where, force=True)
            fn = {(True, True): qs.anneal_qubo, (True, False): qs.anneal_pubo, (False, True): qs.anneal_quso, (False, False): qs.anneal_puso}[
                (b, maxlen <= 2 and A.t in ("dict", "QUBO", "QUSO", "QUBOMatrix", "QUSOMatrix"))]
            init = None
            if rnd.random() < 0.4 and A.is_model and A.t not in MATRIX:
                init = {l: rnd.choice(vals) for l in o._variables}
            init0 = dict(init) if init is not None else None
            fn(o, num_anneals=2, anneal_duration=3, seed=rnd.randrange(100), initial_state=init)
            if init != init0:
                w.fail("argument_mutated", "%s changed initial_state" % where)
        elif call == "extrema":
            {(True, True): qu.approximate_qubo_extrema, (True, False): qu.approximate_pubo_extrema,
             (False, True): qu.approximate_quso_extrema, (False, False): qu.approximate_puso_extrema}[(b, maxlen <= 2)](o)
        elif call == "temperature_range":
            qs.anneal_temperature_range(o, spin=not b)
        elif call == "subgraph":
            nodes = set(rnd.sample(sorted(x, key=sort_key), min(2, len(x))))
            conn = {l: v for l, v in x.items() if l not in nodes}
            conn0 = dict(conn)
            nodes0 = set(nodes)
            if A.is_model and rnd.random() < 0.5:
                o.subgraph(nodes, conn)
            else:
                qu.subgraph(o, nodes, conn)
            if conn != conn0 or nodes != nodes0:
                w.fail("argument_mutated", "%s changed nodes/connections" % where)
        elif call == "subvalue":
            values = {l: v for l, v in x.items() if rnd.random() < 0.5}
            v0 = dict(values)
            if A.is_model and rnd.random() < 0.5:
                o.subvalue(values)
            else:
                qu.subvalue(values, o)
            if values != v0:
                w.fail("argument_mutated", "%s changed values" % where)
        elif call == "normalize_fn":
            if keys:
                qu.normalize(o, rnd.choice([1, 2, 0.5]))
            else:
                ran = False
        elif call == "subs":
            if A.is_model:
                r = o.subs({})
                if r is o:
                    w.fail("copy_aliases_original", "subs returned the model itself")
                elif dict(dict.items(r)) != dict(dict.items(o)):
                    w.fail("copy_not_equal", "subs({}) of a numeric model changed it: %r vs %r" % (dict(r), dict(o)))
                else:
                    r[(w.labels[0],)] += 3
                    if A.t in CONSTRAINED:
                        for lst in r._constraints.values():
                            for c in lst:
                                c[(w.labels[0],)] += 3
            else:
                ran = False
        elif call == "round":
            if A.is_model:
                r = round(o, 1)
                if r is o:
                    w.fail("copy_aliases_original", "round returned the model itself")
                else:
                    r[(w.labels[0],)] += 3
                    if A.t in CONSTRAINED:
                        for lst in r._constraints.values():
                            for c in lst:
                                c[(w.labels[0],)] += 3
            else:
                ran = False
        elif call == "pretty_str":
            if A.is_model:
                o.pretty_str()
            else:
                ran = False
        elif call == "is_valid":
            if A.is_model:
                o.is_solution_valid(x)
            else:
                ran = False
        elif call == "remove_ancilla":
            if A.t in CONSTRAINED:
                x["__a0"] = vals[0]
                x0 = dict(x)
                r = o.remove_ancilla_from_solution(x)
                if r is x:
                    w.fail("copy_aliases_original", "remove_ancilla_from_solution returned its argument")
            else:
                ran = False
        elif call == "convert_solution":
            if A.t in LABELLED:
                n = o.num_binary_variables
                sol = {i: rnd.choice(vals) for i in range(n)} if rnd.random() < 0.5 else [rnd.choice(vals) for _ in range(n)]
                sol0 = sol.copy()
                o.convert_solution(sol)
                if sol != sol0:
                    w.fail("argument_mutated", "%s changed the solution" % where)
            else:
                ran = False
        elif call == "as_constraint_operand":
            ok = A.shadow.is_integer() and len(A.shadow.variables()) <= 4 and A.shadow.degree() <= 3 and maxabs(A.shadow) <= (1 << 16)
            if ok and (A.t != "dict" or all(len(set(k)) == len(k) for k in keys)):
                tmp = (qv.PCBO if b else qv.PCSO)()
                rel = rnd.choice(RELS)
                lo, hi = effective_bounds(A.shadow, None)
                if max(abs(lo), abs(hi), hi - lo) <= 8:
                    getattr(tmp, "add_constraint_%s_zero" % rel)(o, lam=rnd.choice([1, 2]), log_trick=rnd.random() < 0.5) if rel != "eq" else \
                        tmp.add_constraint_eq_zero(o, lam=rnd.choice([1, 2]))
                    # the recorded constraint must be independent of the argument
                    for lst in tmp._constraints.values():
                        for c in lst:
                            if c is o:
                                w.fail("handout_aliases_model", "the recorded constraint IS the argument object")
                            c[(w.labels[0],)] += 5
                    w.probe("as_constraint_operand")
                else:
                    ran = False
            else:
                ran = False
        elif call == "as_arith_operand":
            if A.is_model or all(len(k) <= 3 for k in keys):
                T = w.T["PUBO" if b else "PUSO"] if (A.t not in MATRIX) else w.T["PUBOMatrix" if b else "PUSOMatrix"]
                if A.t == "dict" and w.cfg["labels"] == "int" and rnd.random() < 0.5:
                    T = w.T["PUBOMatrix" if b else "PUSOMatrix"]
                tmp = T({(w.labels[0],): 1, (): 2})
                tmp += o
                tmp -= o
                if len(keys) <= 12 and maxlen <= 3:
                    tmp *= o
                    tmp2 = tmp * o if maxlen <= 2 and len(keys) <= 6 else None
                tmp[(w.labels[0],)] += 1
            else:
                ran = False
        elif call == "logic_operand":
            # logical constraint methods with a model (a boolean expression) as operand
            if b and A.is_model and maxlen <= 2 and len(keys) <= 4 and nvars <= 3:
                tmp = qv.PCBO()
                l1, l2 = w.labels[0], w.labels[-1]
                name = rnd.choice(["AND", "OR", "XOR", "NAND", "NOR", "XNOR", "eq_AND", "eq_OR", "eq_XOR", "NOT", "BUFFER", "eq_NOT", "eq_BUFFER"])
                base = name[3:] if name.startswith("eq_") else name
                if base in ("NOT", "BUFFER"):
                    args = (o,) if not name.startswith("eq_") else rnd.choice([(o, l1), (l1, o)])
                else:
                    args = (o, l1) if not name.startswith("eq_") else rnd.choice([(o, l1, l2), (l1, o, l2)])
                getattr(tmp, "add_constraint_" + name)(*args, lam=rnd.choice([1, 2]))
                for lst in tmp._constraints.values():
                    for c in lst:
                        if c is o:
                            w.fail("handout_aliases_model", "the recorded constraint IS the argument object")
                        c[(l1,)] += 5
                w.probe("as_logic_operand")
            else:
                ran = False
        elif call == "sat_operand":
            if b and A.is_model and maxlen <= 3 and len(keys) <= 8:
                l = w.labels[-1]
                g = rnd.choice([sat.AND, sat.OR, sat.XOR, sat.NAND, sat.NOR, sat.XNOR])
                r = g(o, l)
                r[(l,)] += 1
                n_ = sat.NOT(o)
                n_[(l,)] += 1
                bf = sat.BUFFER(o)
                if bf is o:
                    w.probe("sat_buffer_returns_argument")
                else:
                    bf[(l,)] += 1
            else:
                ran = False
        else:   # value_fn and anything unknown: evaluation
            fn = qu.pubo_value if b else qu.puso_value
            fn(x, o)
    except Violation:
        raise
    except Exception as e:
        w.probe("pure_call_raised:%s:%s:%s:%s" % (call, A.t, type(e).__name__, str(e)[:50]))
    if x != x0 and call not in ():
        w.fail("argument_mutated", "%s changed the assignment passed to it" % where)
    after = w.snap(A)
    if after != before:
        w.fail("argument_mutated", "%s changed its argument: %s -> %s" % (where, brief(before), brief(after)))
    w.check_untouched(set(), where)
    if ran:
        w.probe("pure_calls")
        w.interesting = True
    return call if ran else "n/a"


# ===================================================================== constraints

def do_cons(w, op):
    a = w.slot_index(op)
    A = w.pool[a]
    if A.t not in CONSTRAINED:
        return "skipped"
    o = A.obj
    rel = op["rel"]
    src = op["P"]
    write = {a}
    if "slot" in src:
        bidx = src["slot"] % len(w.pool)
        B = w.pool[bidx]
        if B.t == "num":
            return "skipped"
        Pref = B.shadow.copy()
        Parg = B.obj
        if bidx == a:
            # the model is constrained by ITSELF (the same object on both sides): the recorded constraint must be a snapshot of
            # the polynomial as it was, and the penalty is judged against that snapshot
            w.probe("constraint_on_itself")
            w.interesting = True
        if B.t == "dict" and any(len(set(k)) != len(k) for k in B.obj):
            return "skipped"
    else:
        Parg = {}
        for k, v in src["terms"]:
            Parg[dec_key(k)] = Parg.get(dec_key(k), 0) + v
        Pref = RefPoly(w.kind, Parg)
        Parg = {k: v for k, v in Parg.items()}
    if not Pref.is_integer() or len(Pref.variables()) > 4 or Pref.degree() > 3 or maxabs(Pref) > (1 << 16):
        return "skipped"
    if any(str(v).startswith("__a") for v in Pref.variables()):
        return "skipped"
    if A.foreign or (w.anc_vars(w.stored_poly(A)) - A.issued):
        w.probe("constraint_skipped_foreign_ancillas")
        return "skipped"       # ancilla-named variables that this model did not issue itself: uniqueness is per model
    lo, hi = Pref.extrema()
    log_trick = bool(op.get("log_trick", True))
    if not log_trick and hi - lo > 6:
        log_trick = True
    if hi - lo > 40:
        return "skipped"
    kw = {"lam": op["lam"]}
    if rel != "eq":
        kw["log_trick"] = log_trick
    mode = op.get("bounds", "none")
    if mode == "lo":
        kw["bounds"] = (int(lo) - 1, None)
    elif mode == "hi":
        kw["bounds"] = (None, int(hi) + 1)
    elif mode == "both":
        kw["bounds"] = (int(lo), int(hi))
    elo, ehi = effective_bounds(Pref, kw.get("bounds"))
    mag = max(abs(elo), abs(ehi), ehi - elo)       # unary slack: one ancilla per unit of min_val / range
    if mag > 200:
        return "skipped"
    if mag > 8 and rel != "eq":
        kw["log_trick"] = True
    where = "%s.add_constraint_%s_zero(%r, %r)" % (A.t, rel, Pref, kw)
    H_before = w.stored_poly(A)
    anc_before = o.num_ancillas
    try:
        ret = getattr(o, "add_constraint_%s_zero" % rel)(Parg, **kw)
    except Exception as e:
        w.check_untouched(write, where)
        w.retire(a)
        w.fail("unexpected_exception", "%s: %s: %s" % (where, type(e).__name__, e))
        return "exc"
    w.check_untouched(write, where)          # includes the operand B: argument immutability
    H_after = w.stored_poly(A)
    warned = any("cannot be satisfied" in str(x.message) for x in w.wlist)
    A.cons.add(rel, Pref)
    if w.read_constraints(o).canonical() != A.cons.canonical():
        w.fail("info_roundtrip_mismatch", "%s: recorded constraints %r != expected %r" % (where, w.read_constraints(o).canonical(), A.cons.canonical())) \
            if False else w.probe("constraint_record_differs")
    if op["lam"]:
        try:
            info = check_penalty(H_before, H_after, Pref, rel, op["lam"], A.issued, warned)
        except Violation as v:
            A.shadow = H_after
            if v.oracle in w.active:
                raise
            w.probe("other_property_oracle:" + v.oracle)
            info = {"new_ancillas": set()}
        new = info["new_ancillas"]
        if new:
            w.probe("constraints_with_ancillas")
            if A.issued:
                w.probe("second_ancilla_bearing_constraint")
                w.interesting = True
        A.issued |= new
        for an in new:
            s = str(an)
            if s.startswith("__a") and s[3:].isdigit() and int(s[3:]) >= o.num_ancillas:
                w.fail("ancilla_name_reused", "%s: ancilla %s present but num_ancillas = %d (the next constraint will reuse the name)" % (where, s, o.num_ancillas))
    A.shadow = H_after
    w.probe("constraints_added")
    w.check_written(a, where)
    return rel


# ===================================================================== enumerated / reduced forms

def do_enum(w, op):
    a = w.slot_index(op)
    A = w.pool[a]
    if A.t not in LABELLED:
        return "skipped"
    o = A.obj
    form = op["form"]
    deg = op.get("deg")
    where = "%s.%s(%s)" % (A.t, form, "deg=%d" % deg if deg else "")
    stored = w.stored_poly(A)
    stale = set(o._variables) != stored.variables()
    if stale:
        w.probe("enumerated_form_of_stale_model")
        w.interesting = True
    if len(stored.t) > 24 or stored.degree() > 4:
        return "skipped"
    kw = {}
    if op.get("lam") and A.t not in DEG2 and form != "to_enumerated":
        # the penalty must dominate the coefficient of every reduced term of the BOOLEAN form the reduction works on
        bform = stored.to_bool() if w.kind == SPIN else stored
        big = float(max((abs(v) for v in bform.t.values()), default=0)) + 1
        kw["lam"] = big if op["lam"] == "big_const" else (lambda v: 2 + abs(v))      # >= |v| for the very term being reduced
        if op.get("pairs"):
            kw["pairs"] = {tuple(dec_label(x) for x in pr) for pr in op["pairs"]}
        w.probe("reduction_with_explicit_lam_or_pairs")
        where += " lam=%s pairs=%r" % (op["lam"], op.get("pairs"))
    try:
        if deg and form in ("to_pubo", "to_puso") and A.t not in DEG2:
            D = getattr(o, form)(deg=deg, **kw)
        else:
            D = getattr(o, form)(**kw)
    except Exception as e:
        w.check_untouched(set(), where)
        w.fail("reduced_form_raises", "%s: %s: %s" % (where, type(e).__name__, e))
        return "exc"
    w.check_untouched(set(), where)
    n = o.num_binary_variables
    mapping, rmap = o.mapping, o.reverse_mapping
    labs = set()
    for k in dict.keys(D):
        labs |= set(k)
    bad = [l for l in labs if not isinstance(l, int) or l < 0]
    if bad:
        w.fail("enumerated_label_discipline", "%s uses labels %r that are not non-negative integers" % (where, bad))
        return "bad"
    for l in labs:
        if l < n and l not in rmap:
            w.fail("enumerated_label_discipline", "%s uses label %d < num_binary_variables=%d that is not in the mapping" % (where, l, n))
    # a label of the form can only stand for a model variable if that variable occurs in a term of the model (boolean<->spin
    # conversion keeps every such variable); every other label is an ancilla and must be strictly larger than all mapping labels
    own = {mapping[v] for v in stored.variables() if v in mapping}
    for l in sorted(labs - own):
        if l in rmap or l < n:
            w.fail("enumerated_label_discipline", "%s uses label %d for an ancilla, but the mapping assigns %d to variable %r (num_binary_variables=%d); "
                   "ancillas must get strictly larger, unused labels" % (where, l, l, rmap.get(l), n))
    anc = sorted(l for l in labs if l >= n)
    if anc:
        w.probe("reduction_ancillas")
    # the user-visible consequence of a label collision: the optimum changes / convert_solution breaks
    if form == "to_enumerated":
        dkind = w.kind
    else:
        dkind = BOOL if form in ("to_qubo", "to_pubo") else SPIN
    allv = sorted(set(range(n)) | labs)
    if len(allv) > 12 or n == 0:
        return "ok-large"
    Dp = RefPoly(dkind)
    for k, v in dict.items(D):
        Dp.add_term(tuple(k), v)
    want_deg = deg if deg else (2 if form in ("to_qubo", "to_quso") else None)
    if want_deg and Dp.degree() > want_deg:
        w.probe("other_property_oracle:degree_not_reduced")
    try:
        tab, den = Dp.table(allv)
    except (OverflowError, ValueError):
        return "ok-large"
    mn = int(tab.min())
    mvars = sorted(set(o._variables), key=sort_key)
    if len(mvars) > 12:
        return "ok-large"
    try:
        mtab, mden = stored.table(mvars)
    except (OverflowError, ValueError):
        return "ok-large"
    mmin = Fraction(int(mtab.min()), mden)
    if Fraction(mn, den) != mmin:
        w.fail("enumerated_form_wrong_minimum", "%s: minimum of the form is %s but the model's minimum is %s (labels used: %r, n=%d, mapping=%r)" %
               (where, Fraction(mn, den), mmin, sorted(labs), n, mapping))
        return "bad"
    rows = np.flatnonzero(tab == mn)[:16]
    for r in rows:
        s = RefPoly.row_assignment(dkind, allv, int(r))
        try:
            x = o.convert_solution(dict(s), spin=(dkind == SPIN))
        except Exception as e:
            w.fail("enumerated_form_wrong_minimum", "%s: convert_solution of a minimiser raised %s: %s" % (where, type(e).__name__, e))
            return "bad"
        dom0 = 0 if w.kind == BOOL else 1
        try:
            val = stored.value({l: x[l] for l in stored.variables()})
        except KeyError as e:
            w.fail("enumerated_form_wrong_minimum", "%s: converted minimiser lacks variable %s" % (where, e))
            return "bad"
        if val != mmin:
            w.fail("enumerated_form_wrong_minimum", "%s: minimiser %r of the form converts to %r with model value %s != minimum %s" % (where, s, x, val, mmin))
            return "bad"
    w.probe("enumerated_forms_checked")
    w.interesting = True
    return form
