"""RefMetropolis — single-spin Metropolis reference on exact energies.

States are rows r of a truth table (bit j of r is the boolean value of index
j, i.e. spin 1-2b).  Energies are exact integers `tab[r]` over a common
denominator `den`; dE is the exact difference of two full evaluations.
"""
import math

import numpy as np

INIT, DOUBLE, INT = 0, 1, 2
BRANCH_CAP = 64

# draw conventions accepted (behaviour-preserving refactors must not be flagged)
CONVENTIONS = {
    "lazy": lambda d, T: d > 0 and T > 0,      # today's kernels
    "lazy_anyT": lambda d, T: d > 0,           # `T > 0 &&` guard dropped: exp(-dE/0) = 0, same decisions
    "lazy0": lambda d, T: d >= 0 and T > 0,
    "lazy0_anyT": lambda d, T: d >= 0,
    "eagerT": lambda d, T: T > 0,
    "eager": lambda d, T: True,
}


def accept_prob(d, den, T):
    """min(1, exp(-dE/T)) with dE = d/den; T == 0 handled by the caller."""
    if d <= 0:
        return 1.0
    return math.exp(-(d / den) / T)


class Refinement:
    """Replays one annealer call from the shim's draw log."""

    def __init__(self, tab, den, N, r0, Ts, in_order, num_anneals):
        self.tab, self.den, self.N, self.r0 = tab, den, N, r0
        self.Ts, self.in_order, self.num_anneals = list(Ts), in_order, num_anneals
        self.stats = {}

    def run(self, log, finals):
        """log: list of (kind, bound, value) AFTER the init entry.
        finals: observed final row per anneal.  Returns (ok, reason, info)."""
        reasons = []
        for pre in (0, self.N):
            for name, conv in CONVENTIONS.items():
                ok, reason, info = self._try(log, finals, conv, pre)
                if ok:
                    info["convention"] = name if not pre else name + "+init_draws"
                    return True, None, info
                reasons.append("%s/pre%d: %s" % (name, pre, reason))
        return False, "; ".join(reasons[:4]), {}

    def _try(self, log, finals, conv, pre):
        tab, den, N = self.tab, self.den, self.N
        info = {"tie": 0, "accept_draw": 0, "reject_draw": 0, "zeroT": 0, "downhill": 0, "saturated": 0, "steps": 0}
        positions = {0}
        for a in range(self.num_anneals):
            branches = set()
            for p in positions:
                q = p
                okp = True
                for _ in range(pre):
                    if q >= len(log) or log[q][0] != DOUBLE:
                        okp = False
                        break
                    q += 1
                if okp:
                    branches.add((self.r0, q))
            if not branches:
                return False, "anneal %d: initial draws missing" % a, info
            for T in self.Ts:
                for j in range(N):
                    new = set()
                    for (r, p) in branches:
                        if self.in_order:
                            i = j
                        else:
                            if p >= len(log) or log[p][0] != INT:
                                continue
                            if log[p][1] != N:
                                return False, "rand_int bound %d != number of spins %d" % (log[p][1], N), info
                            i = int(log[p][2])
                            if not 0 <= i < N:
                                return False, "visited index %d out of range" % i, info
                            p += 1
                        d = int(tab[r ^ (1 << i)]) - int(tab[r])
                        u = None
                        if conv(d, T):
                            if p >= len(log) or log[p][0] != DOUBLE:
                                continue
                            u = log[p][2]
                            p += 1
                        info["steps"] += 1
                        if d < 0:
                            flips = (True,)
                            info["downhill"] += 1
                        elif d == 0:
                            info["tie"] += 1
                            flips = (True,) if T > 0 else (True, False)
                        elif T > 0:
                            if u is None:
                                continue      # needs randomness, none logged under this convention
                            f = u < accept_prob(d, den, T)
                            info["accept_draw" if f else "reject_draw"] += 1
                            flips = (f,)
                        else:
                            info["zeroT"] += 1
                            flips = (False,)
                        for f in flips:
                            new.add(((r ^ (1 << i)) if f else r, p))
                    if len(new) > BRANCH_CAP:
                        info["saturated"] = 1
                        return True, "saturated", info
                    branches = new
                    if not branches:
                        return False, "anneal %d: draw log does not fit the convention" % a, info
            positions = {p for (r, p) in branches if r == finals[a]}
            if not positions:
                want = sorted({r for r, _ in branches})
                return False, "anneal %d: final state row %d not among reference outcomes %s" % (a, finals[a], want[:8]), info
        return True, None, info


def boundary_script(tab, den, N, r0, Ts, in_order, num_anneals, visits, sides):
    """Script of uniforms that sit just below / above every acceptance
    threshold the (lazy) reference chain meets.  visits: iterator of spin
    indices (random order) ; sides: iterator of booleans (True = accept)."""
    doubles = []
    vi = iter(visits)
    si = iter(sides)
    for a in range(num_anneals):
        r = r0
        for T in Ts:
            for j in range(N):
                i = j if in_order else next(vi) % N
                d = int(tab[r ^ (1 << i)]) - int(tab[r])
                if d <= 0:
                    r ^= 1 << i
                elif T > 0:
                    p = accept_prob(d, den, T)
                    acc = next(si)
                    if acc:
                        u = p * (1 - 2.0 ** -20)
                    else:
                        u = p * (1 + 2.0 ** -20)
                        if u >= 1.0:
                            u = 1.0 - 2.0 ** -32
                            acc = u < p
                    if u < 0:
                        u = 0.0
                    doubles.append(u)
                    if u < p:
                        r ^= 1 << i
    return doubles


def chain_distribution(tab, den, N, r0, Ts, in_order):
    """Exact distribution over rows after the sweeps (all T > 0)."""
    S = 1 << N
    # single-site kernels per temperature
    dist = np.zeros(S)
    dist[r0] = 1.0
    rows = np.arange(S)
    for T in Ts:
        Ks = []
        for i in range(N):
            nb = rows ^ (1 << i)
            d = (tab[nb] - tab[rows]).astype(np.float64) / den
            if T > 0:
                a = np.where(d <= 0, 1.0, np.exp(-np.maximum(d, 0) / T))
            else:
                a = np.where(d <= 0, 1.0, 0.0)
            K = np.zeros((S, S))
            K[rows, nb] += a
            K[rows, rows] += 1 - a
            Ks.append(K)
        if in_order:
            for i in range(N):
                dist = dist @ Ks[i]
        else:
            M = sum(Ks) / N
            for _ in range(N):
                dist = dist @ M
    return dist


def bernstein_band(n, p, delta=1e-10):
    L = math.log(2.0 / delta)
    return math.sqrt(2.0 * n * p * (1 - p) * L) + 2.0 * L / 3.0
