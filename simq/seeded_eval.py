#!/venv/bin/python
"""Run the checks against the seeded breaking changes kept in /verif/seeded/<id>/.

For each: apply patch.diff to a scratch copy of /repo's working tree (default; VERIF_REPO points the check at it) or,
with --in-repo, to /repo itself (`git -C /repo apply` ... ALWAYS followed by `git -C /repo checkout -- .`), and run the
property's check (quick; thorough if quick misses and --thorough is given).
Evidence and replays are redirected (VERIF_OUT) so that committed evidence is never
touched.  Writes /verif/selftest/seeded_report.json.
"""
import argparse
import json
import os
import shutil
import subprocess
import sys
import tempfile
import time

HERE = os.path.dirname(os.path.abspath(__file__))
VERIF = os.path.dirname(HERE)
PY = "/venv/bin/python"


def sh(cmd, **kw):
    return subprocess.run(cmd, stdout=subprocess.PIPE, stderr=subprocess.STDOUT, text=True, **kw)


def repo_clean():
    return sh(["git", "-C", "/repo", "status", "--porcelain", "--untracked-files=no"]).stdout.strip() == ""


def run_check(prop, tier, out, extra=(), repo=None):
    env = dict(os.environ, VERIF_OUT=out)
    if repo:
        env["VERIF_REPO"] = repo
    t0 = time.time()
    p = sh([PY, os.path.join(HERE, "cli.py"), "check", prop, "--tier", tier] + list(extra), env=env, timeout=3600)
    viol = [l for l in p.stdout.splitlines() if l.startswith("VIOLATION")]
    det = [l.strip() for l in p.stdout.splitlines() if l.startswith("  oracle=") or "ERROR: AddressSanitizer" in l or "runtime error" in l or "Fatal Python" in l]
    return {"rc": p.returncode, "violations": len(viol), "wall_s": round(time.time() - t0, 1), "detail": det[:4], "tail": p.stdout[-800:] if p.returncode == 2 else ""}


def main():
    ap = argparse.ArgumentParser()
    ap.add_argument("--only")
    ap.add_argument("--thorough", action="store_true")
    ap.add_argument("--in-repo", action="store_true", help="apply the patch to /repo itself (git apply ... git checkout -- .) instead of a scratch copy")
    ap.add_argument("--all-props", action="store_true", help="also run the other claimed properties' quick checks")
    a = ap.parse_args()
    if not repo_clean():
        print("refusing: /repo has uncommitted changes to tracked files")
        sys.exit(2)
    sys.path.insert(0, VERIF)
    from simq.props import PROPS
    rows = []
    root = os.path.join(VERIF, "seeded")
    for name in sorted(os.listdir(root)):
        d = os.path.join(root, name)
        if not os.path.isfile(os.path.join(d, "patch.diff")) or (a.only and a.only not in name):
            continue
        meta = json.load(open(os.path.join(d, "meta.json")))
        prop = meta["property"]
        out = tempfile.mkdtemp(prefix="simq-seeded-")
        row = {"id": name, "property": prop}
        scratch = None
        try:
            if a.in_repo:
                ap_ = sh(["git", "-C", "/repo", "apply", os.path.join(d, "patch.diff")])
                target = None
            else:
                # default: a scratch copy of /repo's working tree (so nothing else that uses /repo at the same time is disturbed)
                scratch = tempfile.mkdtemp(prefix="simq-seedrepo-")
                sh(["rsync", "-a", "--exclude", ".git", "--exclude", "*.so", "--exclude", "__pycache__", "--exclude", "docs", "--exclude", "tests",
                    "--exclude", "notebook_examples", "/repo/", scratch + "/"])
                ap_ = sh(["patch", "-p1", "-s", "-d", scratch, "-i", os.path.join(d, "patch.diff")])
                target = scratch
            if ap_.returncode:
                row["error"] = "patch does not apply: " + ap_.stdout[-300:]
                rows.append(row)
                print(name, row["error"])
                continue
            try:
                row["quick"] = run_check(prop, "quick", out, repo=target)
                caught = row["quick"]["rc"] == 1 and row["quick"]["violations"] > 0
                if not caught and a.thorough:
                    row["thorough"] = run_check(prop, "thorough", out, repo=target)
                    caught = row["thorough"]["rc"] == 1 and row["thorough"]["violations"] > 0
                row["caught"] = caught
                if a.all_props:
                    row["other_properties"] = {}
                    for q in sorted(PROPS):
                        if q != prop:
                            r = run_check(q, "quick", out, ["--wall", "30"], repo=target)
                            row["other_properties"][q] = {"rc": r["rc"], "violations": r["violations"], "detail": r["detail"][:1]}
            finally:
                if a.in_repo:
                    sh(["git", "-C", "/repo", "checkout", "--", "."])
        finally:
            shutil.rmtree(out, ignore_errors=True)
            if scratch:
                shutil.rmtree(scratch, ignore_errors=True)
        rows.append(row)
        q = row.get("quick", {})
        print("%-55s %s caught=%s quick_rc=%s wall=%ss %s" % (name, prop, row.get("caught"), q.get("rc"), q.get("wall_s"), (q.get("detail") or [""])[0][:160]), flush=True)
        if q.get("tail"):
            print(q["tail"])
        if "thorough" in row:
            print("    thorough rc=%s %s" % (row["thorough"]["rc"], (row["thorough"]["detail"] or [""])[0][:160]))
    assert repo_clean(), "/repo left dirty!"
    rep = os.path.join(VERIF, "selftest", "seeded_report.json")
    os.makedirs(os.path.dirname(rep), exist_ok=True)
    old = []
    if os.path.exists(rep):
        try:
            old = json.load(open(rep))
        except Exception:
            old = []
    ids = {r["id"] for r in rows}
    by_design = set()
    for r in rows:
        try:
            if json.load(open(os.path.join(root, r["id"], "meta.json"))).get("judgement"):
                by_design.add(r["id"])
                r["not_flagged_by_design"] = True
        except Exception:
            pass
    json.dump([r for r in old if r["id"] not in ids] + rows, open(rep, "w"), indent=1)
    missed = [r["id"] for r in rows if not r.get("caught") and r["id"] not in by_design]
    if by_design:
        print("judged outside the property (see meta.json:judgement), result not counted: %s" % sorted(by_design))
    print("%d seeded changes, missed: %s" % (len(rows), missed))
    sys.exit(1 if missed else 0)


if __name__ == "__main__":
    main()
