#!/venv/bin/python
"""Determinism proof of the simulator.

For every property: N run seeds are executed
  (A) in ONE fresh interpreter,
  (B) split over K fresh interpreters (different chunking = different worker count),
  (C) again in one fresh interpreter under a DIFFERENT PYTHONHASHSEED.
A/B must give identical per-run event-log digests (0 divergences tolerated).
C must give identical verdicts; digest differences are counted and reported
as the reach of the hash-order seam.

usage: selftest_determinism.py [--n 2000] [--props C13,C11,...] [--k 4]
"""
import argparse
import concurrent.futures as cf
import json
import os
import shutil
import sys
import tempfile
import time

sys.path.insert(0, os.path.dirname(os.path.dirname(os.path.abspath(__file__))))
from simq import common, runner  # noqa: E402
from simq.build import Build  # noqa: E402
from simq.props import PROPS  # noqa: E402


def run_range(build, tmpdir, prop, engine, seed, start, count, hashseed, tag):
    job = {"mode": "block", "engine": engine, "prop": prop, "tier": "quick", "verif_seed": seed, "start": start, "count": count,
           "want_all_digests": True, "max_fail": 1000, "hang_s": 900}
    out = runner.call_worker(build, job, hashseed, 1000, tmpdir, tag)
    dig = {i: d for i, d in out["all_digests"]}
    verdict = {f["run"]: f["oracle"] for f in out["failures"]}
    return dig, verdict


def main():
    ap = argparse.ArgumentParser()
    ap.add_argument("--n", type=int, default=2000)
    ap.add_argument("--k", type=int, default=4)
    ap.add_argument("--props", default=",".join(sorted(PROPS)))
    ap.add_argument("--seed", type=int, default=int(os.environ.get("VERIF_SEED", common.DEFAULT_SEED)))
    a = ap.parse_args()
    report = {"n_per_property": a.n, "k": a.k, "seed": a.seed, "properties": {}}
    bad = 0
    tmpdir = tempfile.mkdtemp(prefix="simq-det-")
    t0 = time.time()
    try:
        with Build("sim") as build:
            for prop in a.props.split(","):
                eng = PROPS[prop]["engine"]
                n = a.n
                h1, h2 = 123, 877
                chunk = (n + a.k - 1) // a.k
                jobs = [("A", 0, n, h1)] + [("B%d" % j, j * chunk, min(chunk, n - j * chunk), h1) for j in range(a.k) if j * chunk < n] + [("C", 0, n, h2)]
                # 16 parts of (A) as well, so that two different worker counts are exercised
                chunk16 = (n + 15) // 16
                jobs += [("D%d" % j, j * chunk16, min(chunk16, n - j * chunk16), h1) for j in range(16) if j * chunk16 < n]
                with cf.ThreadPoolExecutor(16) as ex:
                    futs = {tag: ex.submit(run_range, build, tmpdir, prop, eng, a.seed, s, c, h, "%s-%s" % (prop, tag)) for tag, s, c, h in jobs}
                    res = {tag: f.result() for tag, f in futs.items()}
                A, vA = res["A"]
                B, vB = {}, {}
                D, vD = {}, {}
                for tag, (d, v) in res.items():
                    if tag.startswith("B"):
                        B.update(d)
                        vB.update(v)
                    if tag.startswith("D"):
                        D.update(d)
                        vD.update(v)
                C, vC = res["C"]
                div_ab = sorted(i for i in A if A[i] != B.get(i))
                div_ad = sorted(i for i in A if A[i] != D.get(i))
                div_ac = sorted(i for i in A if A[i] != C.get(i))
                verdict_diff = sorted(set(vA.items()) ^ set(vC.items()))
                report["properties"][prop] = {"runs": len(A), "divergent_same_hashseed_1_vs_%d_procs" % a.k: len(div_ab),
                                              "divergent_same_hashseed_1_vs_16_procs": len(div_ad),
                                              "digest_differs_under_other_hashseed": len(div_ac), "verdict_differs_under_other_hashseed": len(verdict_diff),
                                              "first_divergent": (div_ab + div_ad)[:5], "violating_runs": len(vA)}
                ok = not div_ab and not div_ad and not verdict_diff and vA == vB == vD
                bad += 0 if ok else 1
                print("%s runs=%d divergent(1 vs %d procs)=%d divergent(1 vs 16 procs)=%d hashseed-sensitive digests=%d verdict diffs=%d %s" %
                      (prop, len(A), a.k, len(div_ab), len(div_ad), len(div_ac), len(verdict_diff), "OK" if ok else "FAIL"), flush=True)
    finally:
        shutil.rmtree(tmpdir, ignore_errors=True)
    report["wall_s"] = round(time.time() - t0, 1)
    out = os.path.join(os.path.dirname(os.path.dirname(os.path.abspath(__file__))), "selftest", "determinism_report.json")
    os.makedirs(os.path.dirname(out), exist_ok=True)
    json.dump(report, open(out, "w"), indent=1)
    sys.exit(1 if bad else 0)


if __name__ == "__main__":
    main()
