#!/bin/bash
# Multi-seed sweep of every check on the unchanged tree (evidence/replays redirected): any VIOLATION or
# HARNESS-ERROR line here is a false alarm or a new genuine finding and must be looked at.
# usage: soak.sh <tier> <seed> [<seed> ...]
tier=$1; shift
out=$(mktemp -d /tmp/simq-soak-XXXX)
for seed in "$@"; do
  for P in C02 C03 C05 C08 C11 C12 C13 C14 C17 C19; do
    r=$(VERIF_SEED=$seed VERIF_OUT=$out/$seed timeout 3500 /venv/bin/python /verif/simq/cli.py check $P --tier $tier 2>&1)
    rc=$?
    echo "seed=$seed $P rc=$rc $(echo "$r" | tail -1)"
    echo "$r" | grep -E "^VIOLATION|^HARNESS|^  oracle" | cut -c1-500
  done
done
echo "replays kept under $out"
