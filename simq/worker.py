"""Worker: runs in a FRESH interpreter (own PYTHONHASHSEED, maybe LD_PRELOAD).

Reads one JSON job from the file named in argv[1], writes one JSON result to
the file named in argv[2].  Never prints VIOLATION lines itself.
"""
import faulthandler
import importlib
import json
import os
import random
import sys
import time
import traceback

sys.path.insert(0, os.path.dirname(os.path.dirname(os.path.abspath(__file__))))

from simq import common  # noqa: E402
from simq.common import Violation  # noqa: E402

ENGINES = {"e1": "simq.e1_pool", "e2": "simq.e2_constraints", "e3": "simq.e3_results", "e4": "simq.e4_anneal"}


def load_engine(name):
    return importlib.import_module(ENGINES[name])


def check_import_origin():
    """The qubovert under test must be the scratch build, never /repo's install."""
    root = os.environ.get("VERIF_BUILD_ROOT")
    import qubovert
    if root and not os.path.abspath(qubovert.__file__).startswith(os.path.abspath(root)):
        raise common.HarnessError("qubovert imported from %s, expected under %s" % (qubovert.__file__, root))


def do_block(job):
    eng = load_engine(job["engine"])
    prop, tier = job["prop"], job["tier"]
    t0 = time.monotonic()
    deadline = t0 + job.get("deadline_s", 1e9)
    out = {"runs": 0, "ops": 0, "steps": 0, "digests": [], "all_digests": [], "probes": {}, "faults": {},
           "failures": [], "samples": [], "discarded": {}, "extra": {}, "stopped_early": False}
    probes, faults, discarded, extra = {}, {}, {}, {}
    oplog = open(job["oplog"], "w") if job.get("oplog") else None
    for idx in range(job["start"], job["start"] + job["count"]):
        if time.monotonic() > deadline:
            out["stopped_early"] = True
            break
        seed = common.run_seed(job["verif_seed"], prop, idx)
        rng = random.Random(seed)
        cfg = eng.gen_cfg(rng, prop, tier)
        cfg["_run"] = idx
        if oplog:
            oplog.write(json.dumps({"run": idx, "cfg": cfg}) + "\n")
            oplog.flush()
        res = common.execute(eng, prop, cfg, rng=rng, oplog=oplog)
        out["runs"] += 1
        out["ops"] += len(res.ops)
        out["steps"] += res.steps
        for k, v in res.probes.items():
            probes[k] = probes.get(k, 0) + v
        for k, v in res.faults.items():
            faults[k] = faults.get(k, 0) + v
        for k, v in res.extra.items():
            if isinstance(v, (int, float)):
                extra[k] = extra.get(k, 0) + v
        if res.discarded:
            discarded[res.discarded] = discarded.get(res.discarded, 0) + 1
            if res.discarded.startswith("harness_exception") and len(out.setdefault("harness_traces", [])) < 2:
                out["harness_traces"].append({"run": idx, "trace": res.extra.get("_harness_trace", "")})
        if job.get("want_all_digests"):
            out["all_digests"].append([idx, res.digest])
        if res.interesting and not res.discarded:
            out["digests"].append(res.digest)
        if res.violation is not None:
            if len(out["failures"]) < job.get("max_fail", 4):
                f = res.as_failure()
                f["run"] = idx
                out["failures"].append(f)
        elif len(out["samples"]) < 2 and res.interesting and len(res.ops) <= 12:
            out["samples"].append({"run": idx, "cfg": cfg, "ops": res.ops})
    out["probes"], out["faults"], out["discarded"], out["extra"] = probes, faults, discarded, extra
    out["wall_s"] = time.monotonic() - t0
    if oplog:
        oplog.close()
    return out


def replay_once(eng, prop, cfg, ops):
    res = common.execute(eng, prop, cfg, ops=ops)
    if res.violation is None:
        return None
    return {"oracle": res.violation.oracle, "detail": res.violation.detail, "step": res.step, "digest": res.digest}


def do_replay(job):
    rp = job["replay"]
    eng = load_engine(rp["engine"])
    v = replay_once(eng, rp["property"], rp["cfg"], rp["ops"])
    return {"violation": v}


def do_replay_runs(job):
    """Cross-run history: execute the listed run indices one after the other in THIS process (each regenerated from its
    seed) and report the violation of the last one.  Used when a failure depends on state left behind by earlier runs."""
    eng = load_engine(job["engine"])
    prop, tier = job["prop"], job["tier"]
    last = None
    for idx in job["runs"]:
        rng = random.Random(common.run_seed(job["verif_seed"], prop, idx))
        cfg = eng.gen_cfg(rng, prop, tier)
        cfg["_run"] = idx
        res = common.execute(eng, prop, cfg, rng=rng)
        last = res
    v = None
    if last is not None and last.violation is not None:
        v = {"oracle": last.violation.oracle, "detail": last.violation.detail, "step": last.step, "ops": last.ops, "cfg": last.cfg}
    return {"violation": v}


def do_minimise(job):
    from simq import minimise
    rp = job["replay"]
    eng = load_engine(rp["engine"])
    want = rp["expected_violation"]["oracle"]
    budget = [job.get("budget", 400)]

    def test(ops, cfg=None):
        if budget[0] <= 0:
            return False
        budget[0] -= 1
        try:
            v = replay_once(eng, rp["property"], cfg or rp["cfg"], ops)
        except Exception:
            return False
        return v is not None and v["oracle"] == want

    ops = minimise.minimise(rp["ops"], test, getattr(eng, "shrink_op", None))
    v = replay_once(eng, rp["property"], rp["cfg"], ops)
    return {"ops": ops, "violation": v, "attempts": job.get("budget", 400) - budget[0]}


def main():
    job = json.load(open(sys.argv[1]))
    faulthandler.enable()
    if job.get("hang_s"):
        faulthandler.dump_traceback_later(job["hang_s"], exit=True)
    try:
        check_import_origin()
        mode = job["mode"]
        if mode == "block":
            out = do_block(job)
        elif mode == "replay":
            out = do_replay(job)
        elif mode == "minimise":
            out = do_minimise(job)
        elif mode == "replay_runs":
            out = do_replay_runs(job)
        else:
            raise common.HarnessError("bad mode")
        out["ok"] = True
    except Exception as e:
        out = {"ok": False, "error": "%s: %s" % (type(e).__name__, e), "trace": traceback.format_exc()[-4000:]}
    with open(sys.argv[2], "w") as f:
        json.dump(out, f)
    sys.stdout.flush()
    os._exit(0)


if __name__ == "__main__":
    main()
