#!/venv/bin/python
"""Regenerates /verif/MANIFEST.json (kept as a script so the texts live in one place)."""
import json
import os
import sys

sys.path.insert(0, os.path.dirname(os.path.dirname(os.path.abspath(__file__))))
from simq.props import PROPS  # noqa: E402

NA = {
    "C01": "degree reduction is a pure function of (model, deg, lam, pairs) on a refreshed model; no state survives the call and no random, clock or ordering source is consumed, so there is no schedule or fault to simulate (its code is still exercised inside the C08/C14 histories, without being claimed)",
    "C04": "conversions/exports are pure functions of one immutable input; deciding them is input enumeration, not simulation",
    "C06": "each logical constraint method is a pure function of (operands, lam) with no ancillas and no counter; nothing evolves between calls",
    "C07": "sat builders are pure expression evaluation; no state, nondeterminism or fault surface",
    "C09": "brute-force solvers are pure functions of (model, valid, all_solutions); hash-iteration order only picks among equally valid minimisers, the transient offset pop/re-insert contains no user callback or fault point, and argument immutability is covered under C19",
    "C10": "problem classes are immutable after construction and every claim is about one instance's truth table; hash order only permutes labels consistently within a process",
    "C15": "extrema enclosures are pure arithmetic on one model",
    "C16": "commutation of subs with construction is an algebraic identity between two pure computations; no history, nondeterminism or fault is involved",
    "C18": "subvalue/subgraph/normalize are pure functions of their arguments",
}

TECH = "deterministic simulation with fault injection: seeded search over operation/fault histories against an executable reference model, ddmin-minimised replay files"

TEXT = {
    "C02": ("e2", "Seeded histories of comparison constraints on one live PCBO (incl. shortcut shapes and their near misses, skewed ranges, weights in the ten thousands with 16 slack bits, live model objects as arguments) interleaved with copies, refreshes, info round trips, user-pinned mappings and objective edits; after every step the delta observed in the live model is checked exactly (truth table over the constraint's variables and fresh ancillas) for F>=0, min_a F=0 on satisfying x, F>=lam elsewhere, ancilla freshness and conservation H = f + sum F_i; sampling, not proof.",
            "Trusts RefPoly truth tables (exact integer arithmetic); bounded to <=4 variables per constraint, <=6 slack ancillas (<=17 for two-variable wide constraints), <=5 constraints per history (<=60 in deep runs).", "DESIGN.md §3.2, §4 C02"),
    "C03": ("e2", "As C02 on a live PCSO with spin assignments, including the ancilla-counter hand-off to the helper PCBO that is only observable from the second ancilla-bearing constraint of a history, and num_ancillas covering every ancilla present.",
            "Same trusted base and bounds as C02.", "DESIGN.md §3.2, §4 C03"),
    "C05": ("e1", "Seeded histories of arithmetic, in-place, reflected and item-edit operations on a pool of live models/dicts/scalars (self-aliasing, mid-operation KeyErrors, big-integer runs, divisors whose reciprocal is not a binary fraction) tracked against exact reference polynomials; after every step every written object must equal its reference and be stored canonically, every other object must be unchanged, and value functions must equal direct evaluation.",
            "Trusts RefPoly; integer/dyadic coefficients so float arithmetic is exact; degree <= 4, <= 6 labels per run.", "DESIGN.md §3.1, §4 C05"),
    "C08": ("e2", "End-to-end workflow oracle at the end of seeded constraint histories (comparison + logical constraints, boolean and spin) with weights above max f - min f (also barely above, also objectives offset by 2^36), conversions taken before or after the solver call and across a re-pinned mapping: solve_bruteforce, every minimiser of the penalised model and of its to_pubo/to_puso/to_qubo/to_quso forms must convert to a feasible assignment attaining the reference constrained optimum.",
            "Trusts RefPoly truth tables and the reference feasibility predicate; <=4 original variables, <=14 variables in any reduced form.", "DESIGN.md §3.2, §4 C08"),
    "C11": ("e4", "Seeded call histories of the four annealers on the real C extension under simulator-owned random streams (recorded real PCG, scripted draws, scripted raw 32-bit generator words, extreme, threshold-hugging), clocks and heap poison, with live model objects edited between calls, refreshed and scribbled-over accessors, user-pinned mappings, coefficient units from 2^-45 to 2^31, omitted/default arguments and very large models from small-stack threads; every result is checked exactly (count, key set, domain, spin flag, value = model(state) incl. offset, best, arguments unchanged).",
            "Trusts RefPoly evaluation; integer/dyadic couplings; models of <= 8 variables, histories of <= 24 calls.", "DESIGN.md §3.4, §4 C11"),
    "C12": ("e4", "Decision-exact refinement of the C kernels against a reference Metropolis chain driven by the kernel's own recorded draws (both visiting orders, scripted draws hugging every acceptance threshold, infinite and zero temperatures, schedules in every container type, live models edited between calls), zero-temperature monotonicity, seeded twin calls across simulated clock jumps and from other execution contexts (fresh thread, deeper C stack), and a Bernstein-bounded distribution test against the exact k-sweep chain with the real PCG stream.",
            "Trusts RefPoly energies and the 8-state exact transition matrices; statistical cell false-alarm probability <= 1e-10; refinement limited to integer-indexed Matrix inputs with a given initial state.", "DESIGN.md §3.4, §4 C12"),
    "C13": ("e3", "Seeded search over histories of list operations on live AnnealResults objects (empty operands, self-arguments, ties, exact values beyond 2^53, removal of the current best, one-shot and failing iterables) against a plain-list reference; observation is itself a recorded event (every op / sparse / only at the end) so that lazily maintained state cannot hide behind the checks; sampling, not proof.",
            "Trusts the plain-list reference model and the function tables of the harness; histories are <= 60 ops on <= 3 live collections of <= 12 elements.", "DESIGN.md §3.3, §4 C13"),
    "C14": ("e1", "Bookkeeping invariants (variables/degree/num_binary_variables upper bounds, mapping bijection, refresh exactness, label discipline of enumerated and reduced forms, ancilla-name uniqueness) checked after every edit of seeded histories on every model type, including zero assignments, cancellations, copies and callers scribbling over everything the accessors handed out.",
            "Trusts RefPoly and the snapshot reader (dict.items bypassing model accessors).", "DESIGN.md §3.1, §4 C14"),
    "C17": ("e4", "The E4 call histories executed first against a red-zone/poisoning allocator build (heap overflow, invalid/double free, leak across a verbatim repeat, poison showing up in results, interpreter crash) and then against an ASan+UBSan build of the repository's unmodified C sources, including raw generator words a real stream emits once in 2^32 draws and models of up to 1.2 million spins; a sanitizer report or crash is the violation.",
            "Trusts ASan/UBSan and the shim allocator; signed overflow of i*len_state+j needs >= 2^31 elements and is out of reach; allocation failure is not injected.", "DESIGN.md §3.4, §4 C17"),
    "C19": ("e1", "Non-interference under mutation of everything the API hands out, argument immutability of every pure API call, and get_info/create_from_info/copy round trips, checked by deep snapshots of every live object after every step of seeded histories, with continued mutation of both sides, and with user callbacks that raise or look at the argument from inside a solver call.",
            "Trusts the deep snapshot (content comparison, key order ignored).", "DESIGN.md §3.1, §4 C19"),
}


def chk(pid):
    eng, text, note, ref = TEXT[pid]
    return {"property_id": pid,
            "quick_cmd": "timeout 900 /venv/bin/python /verif/simq/cli.py check %s --tier quick" % pid,
            "thorough_cmd": "timeout 3400 /venv/bin/python /verif/simq/cli.py check %s --tier thorough" % pid,
            "evidence_file": "/verif/evidence/%s.json" % pid,
            "replay_cmd_template": "/venv/bin/python /verif/simq/cli.py replay {path}",
            "engine": eng,
            "level_claimed": {"category": "exploration", "text": text, "design_ref": ref},
            "level_note": note, "technique": TECH}


ENGINES = [
    {"name": "e1", "path": "/verif/simq/e1_pool.py", "kind_free_text": "object-pool state machine: live models/dicts/scalars with exact reference polynomials and deep snapshots, aliasing and hand-out mutation faults"},
    {"name": "e2", "path": "/verif/simq/e2_constraints.py", "kind_free_text": "constraint-history machine on one live PCBO/PCSO with per-step penalty oracle, conservation and end-to-end workflow oracle"},
    {"name": "e3", "path": "/verif/simq/e3_results.py", "kind_free_text": "state machine over live AnnealResults with plain-list reference, per-op invariants"},
    {"name": "e4", "path": "/verif/simq/e4_anneal.py", "kind_free_text": "annealer simulator: real C kernels behind simulator-owned RNG / clock / allocator seams (compile-time macro renames), reference Metropolis chain, ASan/UBSan build"},
]


def main():
    claimed = sorted(p for p in PROPS)
    engines = []
    for e in ENGINES:
        sp = [p for p in claimed if TEXT[p][0] == e["name"]]
        if sp:
            engines.append(dict(e, serves_properties=sp))
    na = [{"property_id": k, "reason": v} for k, v in NA.items()]
    for p in TEXT:
        if p not in claimed:
            na.append({"property_id": p, "reason": "check not built yet in this revision (planned: %s); not claimed until it runs" % TEXT[p][0]})
    m = {"version": 1,
         "setup_cmd": "/venv/bin/python /verif/simq/setup_check.py",
         "hooks": {"guard": "JTIOSUE_QUBOVERT_VERIF",
                   "enable": "no source hook exists in /repo: every check copies /repo's working tree to a scratch dir and compiles the repository's unmodified C sources with -Drand_init=verif_rand_init -Drand_double=verif_rand_double -Drand_int=verif_rand_int -Dmalloc=verif_malloc -Drealloc=verif_realloc -Dfree=verif_free (-Dtime=verif_time for random.c) plus /verif/simq/shim.c; JTIOSUE_QUBOVERT_VERIF=1 is set in the worker environment only as a marker",
                   "baseline_off_cmd": "cd /repo && /venv/bin/python -m pytest -ra -q -p no:cacheprovider --timeout=900 --continue-on-collection-errors",
                   "source_commits": [], "add_only": True},
         "engines": engines,
         "checks": [chk(p) for p in claimed],
         "notes": "Technique family: deterministic simulation with fault injection. Exit codes: 0 held, 1 VIOLATION, 2 harness error (never a verdict). See DESIGN.md.",
         "not_applicable": sorted(na, key=lambda x: x["property_id"])}
    path = os.path.join(os.path.dirname(os.path.dirname(os.path.abspath(__file__))), "MANIFEST.json")
    json.dump(m, open(path, "w"), indent=1)
    print("wrote", path, "claimed:", claimed)


if __name__ == "__main__":
    main()
