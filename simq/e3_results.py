"""E3 — AnnealResults machine (property C13).

World: up to 3 live ``AnnealResults`` with plain-list shadows.  Every operation
is applied to both; afterwards element sequences must agree and ``best`` must
be ``None`` iff empty, else an element of minimum value.
"""
from .common import BaseWorld, Violation, HarnessError, choose_weighted, enc_label, dec_label

MAX_LIVE = 3
MAX_LEN = 12
LABELS = [0, 1, "a", ("b", 2)]

# ----------------------------------------------------------------- function tables
# total, pure functions identified by name in the replay file


def _rec(r):
    return (dict(r.state), r.value, bool(r.spin))


FILTERS = {
    "all": lambda rec: True,
    "none": lambda rec: False,
    "val_le_0": lambda rec: rec[1] <= 0,
    "val_gt_min": None,      # needs context, handled specially
    "spin": lambda rec: rec[2],
    "not_spin": lambda rec: not rec[2],
}
STATE_FILTERS = {
    "all": lambda s: True,
    "none": lambda s: False,
    "nonempty": lambda s: len(s) > 0,
    "first_hi": lambda s: any(v == 1 for v in s.values()),
    "sum_even": lambda s: sum(s.values()) % 2 == 0,
}
APPLY = {
    "neg": lambda rec: (dict(rec[0]), -rec[1], rec[2]),
    "plus1": lambda rec: (dict(rec[0]), rec[1] + 1, rec[2]),
    "ident": lambda rec: (dict(rec[0]), rec[1], rec[2]),
    # (repeated squaring of the huge exact values of `big_vals` runs would double the digit count every time: capped)
    "square": lambda rec: (dict(rec[0]), rec[1] * rec[1] if abs(rec[1]) < (1 << 200) else rec[1], rec[2]),
    "const0": lambda rec: (dict(rec[0]), 0, rec[2]),
}
CONVERT = {
    "ident": lambda s: dict(s),
    "wrap": lambda s: {("w", k) if not isinstance(k, tuple) else ("w",) + k: v for k, v in s.items()},
    "empty": lambda s: {},
}


# keys a user may hand to sort(); none of them is monotone in `value`, so `best` cannot be read off a position afterwards
SORT_KEYS = {
    "nvars": lambda r: len(r.state),
    "sum_state": lambda r: sum(r.state.values()),
    "neg_value": lambda r: -r.value,
    "abs_value": lambda r: abs(r.value),
}


def enc_state(s):
    return [[enc_label(k), v] for k, v in s.items()]


def dec_state(j):
    return {dec_label(k): v for k, v in j}


def enc_rec(rec):
    return [enc_state(rec[0]), rec[1], rec[2]]


def dec_rec(j):
    return (dec_state(j[0]), j[1], bool(j[2]))


def to_boolean_rec(rec):
    s, v, spin = rec
    if not spin:
        return (dict(s), v, False)
    return ({k: (1 - x) // 2 for k, x in s.items()}, v, False)


def to_spin_rec(rec):
    s, v, spin = rec
    if spin:
        return (dict(s), v, True)
    return ({k: 1 - 2 * x for k, x in s.items()}, v, True)


class World(BaseWorld):
    def __init__(self, prop, cfg):
        super().__init__(prop, cfg)
        from qubovert.sim import AnnealResults, AnnealResult
        self.AR, self.R = AnnealResults, AnnealResult
        self.live = []       # list of [impl, shadow(list of rec)]
        self.nops = 0

    # ------------------------------------------------------------- generation
    def gen_rec(self, rng):
        c = self.cfg
        spin = rng.random() < c["p_spin"]
        n = rng.randint(0, c["max_labels"])
        labels = rng.sample(LABELS, n)
        if spin:
            state = {l: rng.choice((1, -1)) for l in labels}
        else:
            state = {l: rng.choice((0, 1)) for l in labels}
        lo, hi = c["vals"]
        v = rng.randint(lo, hi)
        if c.get("big_vals"):
            v += c["big_vals"]        # exact integers beyond 2^53: distinct values that a float conversion would merge
        elif c.get("float_vals") and rng.random() < 0.5:
            v = v + rng.choice([0.0, 0.5, -0.5, 0.25])
        return (state, v, spin)

    def gen_recs(self, rng, lo=0, hi=4):
        return [self.gen_rec(rng) for _ in range(rng.randint(lo, hi))]

    def gen_src(self, rng):
        """An operand for extend / + / += / constructor."""
        kind = choose_weighted(rng, [("ar", 4), ("list", 2), ("gen", 1), ("self", 1.5), ("empty_ar", 1.5), ("empty_list", 1),
                                     ("tuple", 0.7), ("iter", 0.7), ("reversed", 0.4), ("map", 0.4), ("gen_raises", 0.6)])
        if kind in ("tuple", "iter", "reversed", "map"):
            return {"k": kind, "items": [enc_rec(r) for r in self.gen_recs(rng)]}
        if kind == "gen_raises":
            recs = self.gen_recs(rng, 1, 4)
            return {"k": "gen_raises", "items": [enc_rec(r) for r in recs], "fail_after": rng.randint(0, len(recs))}
        if kind == "ar" and self.live:
            return {"k": "ar", "slot": rng.randrange(len(self.live))}
        if kind == "self":
            return {"k": "self"}
        if kind == "empty_ar":
            return {"k": "new_ar", "items": []}
        if kind == "empty_list":
            return {"k": "list", "items": []}
        if kind == "gen":
            return {"k": "gen", "items": [enc_rec(r) for r in self.gen_recs(rng)]}
        if kind == "ar":
            return {"k": "new_ar", "items": [enc_rec(r) for r in self.gen_recs(rng)]}
        return {"k": "list", "items": [enc_rec(r) for r in self.gen_recs(rng)]}

    def gen_index(self, rng, n, allow_oob=True):
        if n == 0 or (allow_oob and rng.random() < 0.05):
            return rng.choice([0, -1, n, n + 1, -n - 1])
        return rng.randrange(-n, n)

    def gen_slice(self, rng, n):
        def e():
            return rng.choice([None, None] + list(range(-n - 1, n + 2)))
        step = rng.choice([None, None, None, 1, 2, -1, -2, 3])
        return [e(), e(), step]

    def gen_op(self, rng):
        op = self.gen_op_inner(rng)
        if op is not None:
            mode = self.cfg.get("observe", "every")
            if mode == "sparse":
                op["obs"] = rng.random() < 0.3
            elif mode == "end":
                op["obs"] = False
        return op

    def gen_op_inner(self, rng):
        if self.nops >= self.cfg["n_ops"]:
            return None
        if not self.live:
            return {"op": "new", "src": self.gen_src_new(rng)}
        w = self.cfg["weights"]
        table = [
            ("new", w.get("new", 1)), ("append", 3), ("add_state", 1), ("insert", 2),
            ("remove", w.get("remove", 3)), ("pop", w.get("pop", 3)), ("extend", w.get("extend", 3)), ("add", 2),
            ("iadd", w.get("extend", 3)), ("mul", 1.5), ("getitem", 1), ("getslice", 2),
            ("setitem", w.get("setitem", 2)), ("setslice", 1.5), ("delitem", w.get("setitem", 2)),
            ("delslice", 1.5), ("clear", 0.7), ("sort", 1.5), ("copy", 1), ("filter", 1.5),
            ("filter_states", 1), ("apply_function", 1.5), ("convert_states", 1),
            ("to_boolean", 1), ("to_spin", 1), ("roundtrip", 0.7),
        ]
        kind = choose_weighted(rng, table)
        a = rng.randrange(len(self.live))
        n = len(self.live[a][1])
        if n > 4 * MAX_LEN and kind in ("extend", "iadd", "add", "mul", "append", "add_state", "insert", "setslice"):
            # repeated self-extension doubles a collection every time (2^20 elements after 20 of 60 ops): keep the world small
            self.probe("growth_op_replaced_on_large_collection")
            if rng.random() < 0.5:
                return {"op": "clear", "a": a}
            return {"op": "delslice", "a": a, "s": [MAX_LEN // 2, None, 1]}
        op = {"op": kind, "a": a}
        if kind == "new":
            op["src"] = self.gen_src_new(rng)
            del op["a"]
        elif kind in ("append", "add_state"):
            op["rec"] = enc_rec(self.gen_rec(rng))
        elif kind == "insert":
            op["i"] = self.gen_index(rng, n)
            op["rec"] = enc_rec(self.gen_rec(rng))
        elif kind == "remove":
            # usually an element that is present; biased towards the current minimum
            if n and rng.random() < 0.9:
                if rng.random() < 0.5:
                    vals = [r[1] for r in self.live[a][1]]
                    op["idx"] = vals.index(min(vals))
                else:
                    op["idx"] = rng.randrange(n)
            else:
                op["rec"] = enc_rec(self.gen_rec(rng))
        elif kind == "pop":
            if n and rng.random() < 0.4:
                vals = [r[1] for r in self.live[a][1]]
                op["i"] = vals.index(min(vals))
            else:
                op["i"] = self.gen_index(rng, n)
        elif kind in ("extend", "add", "iadd"):
            op["src"] = self.gen_src(rng)
        elif kind == "mul":
            op["k"] = rng.choice([0, 1, 2, 2, 3, -1])
        elif kind == "getitem":
            op["i"] = self.gen_index(rng, n)
        elif kind == "getslice":
            op["s"] = self.gen_slice(rng, n)
        elif kind == "setitem":
            if n and rng.random() < 0.4:
                vals = [r[1] for r in self.live[a][1]]
                op["i"] = vals.index(min(vals))
            else:
                op["i"] = self.gen_index(rng, n)
            op["rec"] = enc_rec(self.gen_rec(rng))
        elif kind == "setslice":
            s = self.gen_slice(rng, n)
            op["s"] = s
            if s[2] in (None, 1):
                op["items"] = [enc_rec(r) for r in self.gen_recs(rng, 0, 3)]
            else:
                m = len(range(*slice(*s).indices(n)))
                op["items"] = [enc_rec(self.gen_rec(rng)) for _ in range(m)]
        elif kind == "delitem":
            if n and rng.random() < 0.4:
                vals = [r[1] for r in self.live[a][1]]
                op["i"] = vals.index(min(vals))
            else:
                op["i"] = self.gen_index(rng, n)
        elif kind == "delslice":
            op["s"] = self.gen_slice(rng, n)
        elif kind == "sort":
            if rng.random() < 0.5:
                op["key"] = rng.choice(sorted(SORT_KEYS))
            if rng.random() < 0.3:
                op["reverse"] = True
        elif kind == "filter":
            op["f"] = rng.choice(sorted(FILTERS))
        elif kind == "filter_states":
            op["f"] = rng.choice(sorted(STATE_FILTERS))
        elif kind == "apply_function":
            op["f"] = rng.choice(sorted(APPLY))
        elif kind == "convert_states":
            op["f"] = rng.choice(sorted(CONVERT))
        return op

    def gen_src_new(self, rng):
        kind = choose_weighted(rng, [("list", 3), ("gen", 1), ("ar", 1), ("empty", 2), ("noarg", 1)])
        if kind == "ar" and self.live:
            return {"k": "ar", "slot": rng.randrange(len(self.live))}
        if kind == "empty":
            return {"k": "list", "items": []}
        if kind == "noarg":
            return {"k": "noarg"}
        if kind == "gen":
            return {"k": "gen", "items": [enc_rec(r) for r in self.gen_recs(rng)]}
        return {"k": "list", "items": [enc_rec(r) for r in self.gen_recs(rng, 1, 5)]}

    # ------------------------------------------------------------- helpers
    def mk(self, rec):
        return self.R(dict(rec[0]), rec[1], rec[2])

    def slot(self, op, key="a"):
        if not self.live:
            raise HarnessError("no live object")
        return op.get(key, 0) % len(self.live)

    def resolve_src(self, src, a):
        """Returns (impl_operand, shadow_records, tag)."""
        k = src["k"]
        if k == "self":
            impl, sh = self.live[a]
            self.probe("self_argument")
            self.interesting = True
            return impl, list(sh), "self"
        if k == "ar":
            b = src["slot"] % len(self.live)
            impl, sh = self.live[b]
            if b == a:
                self.probe("self_argument")
            return impl, list(sh), "ar"
        recs = [dec_rec(r) for r in src.get("items", [])]
        if k == "new_ar":
            return self.AR([self.mk(r) for r in recs]), recs, "ar"
        if k == "gen":
            return (self.mk(r) for r in recs), recs, "gen"
        if k == "list":
            return [self.mk(r) for r in recs], recs, "list"
        if k == "tuple":
            return tuple(self.mk(r) for r in recs), recs, "tuple"
        if k == "iter":
            return iter([self.mk(r) for r in recs]), recs, "iter"
        if k == "reversed":
            return reversed([self.mk(r) for r in recs]), recs[::-1], "reversed"
        if k == "map":
            return map(self.mk, recs), recs, "map"
        raise HarnessError("bad src %r" % (src,))

    def add_live(self, impl, shadow):
        if not isinstance(impl, self.AR):
            raise Violation("derived_not_annealresults", "got %s" % type(impl).__name__)
        if len(shadow) > MAX_LEN:
            # keep the world small; trimming is a harness action on both sides
            return
        if len(self.live) >= MAX_LIVE:
            self.live.pop(0)
        self.live.append([impl, shadow])

    # ------------------------------------------------------------- oracle
    def check_obj(self, impl, shadow, where):
        got = [_rec(r) for r in list.__iter__(impl)]
        if got != shadow:
            raise Violation("sequence_mismatch", "%s: got %r want %r" % (where, got, shadow))
        best = impl.best
        if not shadow:
            if best is not None:
                raise Violation("best_not_none_when_empty", "%s: best=%r" % (where, best))
            return
        if best is None:
            raise Violation("best_none_when_nonempty", "%s: %r" % (where, shadow))
        mn = min(r[1] for r in shadow)
        if best.value != mn:
            raise Violation("best_not_minimum", "%s: best.value=%r min=%r in %r" % (where, best.value, mn, [r[1] for r in shadow]))
        if not any(best is r for r in list.__iter__(impl)) and _rec(best) not in shadow:
            raise Violation("best_not_an_element", "%s: best=%r" % (where, _rec(best)))

    def check_all(self, where):
        for i, (impl, sh) in enumerate(self.live):
            self.check_obj(impl, sh, "%s/slot%d" % (where, i))

    def note_shape(self, a):
        sh = self.live[a][1]
        if not sh:
            self.probe("empty_receiver")
            self.interesting = True
        else:
            vals = [r[1] for r in sh]
            if vals.count(min(vals)) > 1:
                self.probe("tie_on_minimum")

    # ------------------------------------------------------------- apply
    def apply(self, op):
        self.nops += 1
        self.steps += 1
        kind = op["op"]
        if kind == "new":
            return self.op_new(op)
        a = self.slot(op)
        impl, sh = self.live[a]
        self.note_shape(a)
        fn = getattr(self, "op_" + kind, None)
        if fn is None:
            raise HarnessError("unknown op " + kind)
        ev = fn(op, a, impl, sh)
        # Observation is itself an event: reading `best` (or iterating) after every single operation would resynchronise a
        # lazily maintained cache and hide it.  Whether the simulator looks after this op is part of the recorded op.
        if op.get("obs", True):
            self.check_all(kind)
        else:
            self.probe("unobserved_ops")
        return [kind, ev, [len(s) for _, s in self.live]]

    def finish(self):
        self.check_all("finish")
        return ["finish", [len(s) for _, s in self.live]]

    def guarded(self, kind, list_action, impl_action):
        """Run the list action on the shadow; if the list accepts it the
        implementation must not raise.  Returns (list_ok, list_result, impl_result)."""
        try:
            lres = list_action()
            ok = True
        except (IndexError, ValueError, TypeError) as e:
            ok, lres = False, e
        try:
            ires = impl_action()
        except Violation:
            raise
        except Exception as e:
            if ok:
                raise Violation("raises_where_list_accepts", "%s: %s: %s" % (kind, type(e).__name__, e))
            self.probe("list_rejects")
            return False, None, None
        return ok, lres, ires

    def op_new(self, op):
        src = op["src"]
        if src["k"] == "noarg":
            impl, sh = self.AR(), []
        else:
            operand, recs, tag = self.resolve_src(src, 0) if src["k"] != "ar" else self.resolve_src(src, -1)
            try:
                impl = self.AR(operand)
            except Exception as e:
                raise Violation("raises_where_list_accepts", "constructor(%s): %s: %s" % (tag, type(e).__name__, e))
            sh = list(recs)
            if not recs:
                self.probe("empty_argument")
                self.interesting = True
        self.add_live(impl, sh)
        if op.get("obs", True):
            self.check_all("new")
        return ["new", len(sh)]

    def op_append(self, op, a, impl, sh):
        rec = dec_rec(op["rec"])
        self.guarded("append", lambda: sh.append(rec), lambda: impl.append(self.mk(rec)))

    def op_add_state(self, op, a, impl, sh):
        rec = dec_rec(op["rec"])
        self.guarded("add_state", lambda: sh.append(rec), lambda: impl.add_state(dict(rec[0]), rec[1], rec[2]))

    def op_insert(self, op, a, impl, sh):
        rec = dec_rec(op["rec"])
        self.guarded("insert", lambda: sh.insert(op["i"], rec), lambda: impl.insert(op["i"], self.mk(rec)))

    def removing_best(self, sh, rec):
        if sh and rec[1] == min(r[1] for r in sh):
            self.probe("removed_current_minimum")
            self.interesting = True

    def op_remove(self, op, a, impl, sh):
        if "idx" in op and sh:
            rec = sh[op["idx"] % len(sh)]
        elif "rec" in op:
            rec = dec_rec(op["rec"])
        else:
            return "skip"
        if rec in sh:
            self.removing_best(sh, rec)
        self.guarded("remove", lambda: sh.remove(rec), lambda: impl.remove(self.mk(rec)))

    def op_pop(self, op, a, impl, sh):
        i = op["i"]
        if sh and -len(sh) <= i < len(sh):
            self.removing_best(sh, sh[i])
        ok, lres, ires = self.guarded("pop", lambda: sh.pop(i), lambda: impl.pop(i))
        if ok and _rec(ires) != lres:
            raise Violation("wrong_return", "pop(%d): got %r want %r" % (i, _rec(ires), lres))

    def failing_source(self, op, a, impl, sh, inplace_add):
        """Injected fault: the iterable handed to extend / += raises after yielding a prefix.  Afterwards the collection is
        either unchanged or extended by exactly that prefix (a list does the latter), and the `best` invariants hold."""
        src = op["src"]
        recs = [dec_rec(r) for r in src["items"]]
        k = min(src.get("fail_after", 0), len(recs))

        def source():
            for r in recs[:k]:
                yield self.mk(r)
            raise RuntimeError("injected: iterable fails")
        self.fault("iterable_raises_mid_operation")
        try:
            if inplace_add:
                x = impl
                x += source()
            else:
                impl.extend(source())
        except RuntimeError:
            pass
        except Exception as e:
            raise Violation("raises_where_list_accepts", "extend with a failing iterable raised %s instead of the iterable's own error" % type(e).__name__)
        got = [_rec(r) for r in list.__iter__(impl)]
        if got == sh + recs[:k]:
            sh.extend(recs[:k])
        elif got != sh:
            raise Violation("sequence_mismatch", "after a failing iterable: got %r, expected %r or that plus the yielded prefix %r" % (got, sh, recs[:k]))
        return "gen_raises"

    def op_extend(self, op, a, impl, sh):
        if op["src"]["k"] == "gen_raises":
            return self.failing_source(op, a, impl, sh, False)
        operand, recs, tag = self.resolve_src(op["src"], a)
        if not recs:
            self.probe("empty_argument")
            self.interesting = True
        self.guarded("extend(%s)" % tag, lambda: sh.extend(recs), lambda: impl.extend(operand))
        return tag

    def op_iadd(self, op, a, impl, sh):
        if op["src"]["k"] == "gen_raises":
            return self.failing_source(op, a, impl, sh, True)
        operand, recs, tag = self.resolve_src(op["src"], a)
        if not recs:
            self.probe("empty_argument")
            self.interesting = True

        def act():
            x = impl
            x += operand
            return x
        ok, _, ires = self.guarded("iadd(%s)" % tag, lambda: sh.extend(recs), act)
        if ok and ires is not impl:
            # rebinding to a fresh object is legal for +=; follow it
            if not isinstance(ires, self.AR):
                raise Violation("derived_not_annealresults", "+= gave %s" % type(ires).__name__)
            self.live[a][0] = ires
        return tag

    def op_add(self, op, a, impl, sh):
        src = op["src"]
        if src["k"] in ("gen", "tuple", "iter", "reversed", "map", "gen_raises"):
            src = dict(src, k="list")      # list + non-list is a TypeError for lists
        operand, recs, tag = self.resolve_src(src, a)
        if not recs:
            self.probe("empty_argument")
            self.interesting = True
        ok, lres, ires = self.guarded("add(%s)" % tag, lambda: sh + recs, lambda: impl + operand)
        if ok:
            self.add_live(ires, lres)
        return tag

    def op_mul(self, op, a, impl, sh):
        k = op["k"]
        ok, lres, ires = self.guarded("mul", lambda: sh * k, lambda: impl * k)
        if ok:
            if len(lres) <= MAX_LEN:
                self.add_live(ires, lres)
            else:
                self.check_obj(ires, lres, "mul")
                if not isinstance(ires, self.AR):
                    raise Violation("derived_not_annealresults", "* gave %s" % type(ires).__name__)

    def op_getitem(self, op, a, impl, sh):
        i = op["i"]
        ok, lres, ires = self.guarded("getitem", lambda: sh[i], lambda: impl[i])
        if ok and _rec(ires) != lres:
            raise Violation("wrong_return", "getitem(%d): got %r want %r" % (i, _rec(ires), lres))

    def op_getslice(self, op, a, impl, sh):
        s = slice(*op["s"])
        ok, lres, ires = self.guarded("getslice", lambda: sh[s], lambda: impl[s])
        if ok:
            self.add_live(ires, lres)

    def op_setitem(self, op, a, impl, sh):
        i, rec = op["i"], dec_rec(op["rec"])
        if sh and -len(sh) <= i < len(sh):
            self.removing_best(sh, sh[i])

        def lact():
            sh[i] = rec

        def iact():
            impl[i] = self.mk(rec)
        self.guarded("setitem", lact, iact)

    def op_setslice(self, op, a, impl, sh):
        s = slice(*op["s"])
        recs = [dec_rec(r) for r in op["items"]]
        if sh and any(r[1] == min(x[1] for x in sh) for r in sh[s]):
            self.probe("removed_current_minimum")
            self.interesting = True

        def lact():
            sh[s] = recs

        def iact():
            impl[s] = [self.mk(r) for r in recs]
        self.guarded("setslice", lact, iact)

    def op_delitem(self, op, a, impl, sh):
        i = op["i"]
        if sh and -len(sh) <= i < len(sh):
            self.removing_best(sh, sh[i])

        def lact():
            del sh[i]

        def iact():
            del impl[i]
        self.guarded("delitem", lact, iact)

    def op_delslice(self, op, a, impl, sh):
        s = slice(*op["s"])
        if sh and any(r[1] == min(x[1] for x in sh) for r in sh[s]):
            self.probe("removed_current_minimum")
            self.interesting = True

        def lact():
            del sh[s]

        def iact():
            del impl[s]
        self.guarded("delslice", lact, iact)

    def op_clear(self, op, a, impl, sh):
        self.guarded("clear", lambda: sh.clear(), lambda: impl.clear())

    def op_sort(self, op, a, impl, sh):
        kw = {}
        kname = op.get("key")
        if kname:
            kw["key"] = SORT_KEYS[kname]
        if op.get("reverse"):
            kw["reverse"] = True
        try:
            impl.sort(**kw)
        except Exception as e:
            raise Violation("raises_where_list_accepts", "sort(%r): %s: %s" % (op, type(e).__name__, e))
        got = [_rec(r) for r in list.__iter__(impl)]
        if kname:
            ks = [SORT_KEYS[kname](self.mk(r)) for r in got]
        else:
            ks = [r[1] for r in got]
        if op.get("reverse"):
            ks = ks[::-1]
        if any(ks[i] > ks[i + 1] for i in range(len(ks) - 1)):
            raise Violation("sort_not_ordered", "sort(%r): keys %r" % ({k: op[k] for k in op if k in ("key", "reverse")}, ks))
        key = lambda r: (r[1], r[2], sorted(map(repr, r[0].items())))
        if sorted(got, key=key) != sorted(sh, key=key):
            raise Violation("sort_changed_elements", "got %r from %r" % (got, sh))
        sh[:] = got     # order among equal values is not specified by the property

    def op_copy(self, op, a, impl, sh):
        ok, lres, ires = self.guarded("copy", lambda: list(sh), lambda: impl.copy())
        if ires is impl:
            raise Violation("copy_is_same_object", "")
        self.add_live(ires, lres)

    def op_filter(self, op, a, impl, sh):
        name = op["f"]
        if name == "val_gt_min":
            mn = min([r[1] for r in sh], default=0)
            f = lambda rec: rec[1] > mn
        else:
            f = FILTERS[name]
        ok, lres, ires = self.guarded("filter", lambda: [r for r in sh if f(r)], lambda: impl.filter(lambda r: f(_rec(r))))
        self.add_live(ires, lres)

    def op_filter_states(self, op, a, impl, sh):
        f = STATE_FILTERS[op["f"]]
        ok, lres, ires = self.guarded("filter_states", lambda: [r for r in sh if f(r[0])], lambda: impl.filter_states(lambda s: f(dict(s))))
        self.add_live(ires, lres)

    def op_apply_function(self, op, a, impl, sh):
        g = APPLY[op["f"]]
        ok, lres, ires = self.guarded("apply_function", lambda: [g(r) for r in sh], lambda: impl.apply_function(lambda r: self.mk(g(_rec(r)))))
        self.add_live(ires, lres)

    def op_convert_states(self, op, a, impl, sh):
        h = CONVERT[op["f"]]
        ok, lres, ires = self.guarded("convert_states", lambda: [(h(r[0]), r[1], r[2]) for r in sh], lambda: impl.convert_states(lambda s: h(dict(s))))
        self.add_live(ires, lres)

    def op_to_boolean(self, op, a, impl, sh):
        ok, lres, ires = self.guarded("to_boolean", lambda: [to_boolean_rec(r) for r in sh], lambda: impl.to_boolean())
        self.add_live(ires, lres)

    def op_to_spin(self, op, a, impl, sh):
        ok, lres, ires = self.guarded("to_spin", lambda: [to_spin_rec(r) for r in sh], lambda: impl.to_spin())
        self.add_live(ires, lres)

    def op_roundtrip(self, op, a, impl, sh):
        """to_boolean/to_spin are mutually inverse on states and preserve values."""
        try:
            x = impl.to_boolean().to_spin()
            y = impl.to_spin().to_boolean()
        except Exception as e:
            raise Violation("raises_where_list_accepts", "roundtrip: %s: %s" % (type(e).__name__, e))
        for name, z, want in (("b->s", x, [to_spin_rec(r) for r in sh]), ("s->b", y, [to_boolean_rec(r) for r in sh])):
            self.check_obj(z, want, "roundtrip " + name)
            if not isinstance(z, self.AR):
                raise Violation("derived_not_annealresults", name)


def gen_cfg(rng, prop, tier):
    """Swarm configuration of one run."""
    lo = rng.choice([-2, -1, 0])
    hi = lo + rng.choice([0, 1, 2, 4])
    w = {}
    for k in ("new", "remove", "pop", "extend", "setitem"):
        w[k] = rng.choice([0.3, 1, 3, 6])
    big = rng.choice([2 ** 53, -(2 ** 53), 2 ** 64 + 1, 10 ** 30]) if rng.random() < 0.12 else 0
    return {
        "big_vals": big,
        "n_ops": rng.choice([4, 8, 15, 30] if tier == "quick" else [4, 8, 15, 30, 60]),
        "vals": [lo, hi],
        "p_spin": rng.choice([0.0, 0.5, 1.0]),
        "max_labels": rng.choice([0, 1, 2, 3]), "float_vals": rng.random() < 0.3,
        "observe": rng.choice(["every", "every", "sparse", "sparse", "end"]),
        "weights": w,
    }


def shrink_op(op):
    """Simpler variants of one op (for the minimiser)."""
    out = []
    if "items" in op and op["items"]:
        out.append(dict(op, items=op["items"][:-1]))
    src = op.get("src")
    if isinstance(src, dict) and src.get("items"):
        out.append(dict(op, src=dict(src, items=src["items"][:-1])))
    if "rec" in op:
        st, v, sp = op["rec"]
        if st:
            out.append(dict(op, rec=[[], v, sp]))
        if v != 0:
            out.append(dict(op, rec=[st, 0, sp]))
    return out


INTEREST = "a run is non-trivial if an empty receiver/argument, a self-argument or the removal/overwrite of the current minimum occurred"
