"""ctypes access to the shim's control block inside the built _canneal.so."""
import ctypes

COUNTERS = ("verif_allocs", "verif_frees", "verif_reallocs", "verif_bytes", "verif_live_bytes", "verif_highwater",
            "verif_canary_bad", "verif_bad_free", "verif_zero_allocs", "verif_neg_allocs",
            "verif_n_init", "verif_n_double", "verif_n_int", "verif_bad_bound",
            "verif_underrun_d", "verif_underrun_i", "verif_clock_reads", "verif_log_len", "verif_log_dropped",
            "verif_script_d_pos", "verif_script_i_pos", "verif_n_raw", "verif_raw_underrun", "verif_bad_int", "verif_bad_double")

INIT, DOUBLE, INT = 0, 1, 2


class Shim:
    def __init__(self):
        from qubovert.sim import _canneal
        self.path = _canneal.__file__
        self.lib = ctypes.CDLL(self.path)
        L = self.lib
        try:
            L.verif_reset.restype = None
        except AttributeError:
            raise RuntimeError("the loaded _canneal (%s) was not built with the simulator shim" % self.path)
        L.verif_set_script_d.argtypes = [ctypes.POINTER(ctypes.c_double), ctypes.c_long]
        L.verif_set_script_i.argtypes = [ctypes.POINTER(ctypes.c_long), ctypes.c_long]
        L.verif_set_raw_script.argtypes = [ctypes.POINTER(ctypes.c_uint32), ctypes.c_long, ctypes.c_int]
        L.verif_set_clock.argtypes = [ctypes.POINTER(ctypes.c_long), ctypes.c_int]
        L.verif_get_log.argtypes = [ctypes.POINTER(ctypes.c_int), ctypes.POINTER(ctypes.c_int), ctypes.POINTER(ctypes.c_double), ctypes.c_long]
        L.verif_get_log.restype = ctypes.c_long
        L.verif_live_blocks.restype = ctypes.c_long
        L.verif_check_live.restype = ctypes.c_long
        self._c = {n: ctypes.c_long.in_dll(L, n) for n in COUNTERS}
        self._mode = ctypes.c_int.in_dll(L, "verif_mode")
        self._cycle = ctypes.c_int.in_dll(L, "verif_script_cycle")
        self._logen = ctypes.c_int.in_dll(L, "verif_log_enabled")

    def reset(self):
        self.lib.verif_reset()

    def get(self, name):
        return self._c[name].value

    def counters(self):
        return {n[6:]: c.value for n, c in self._c.items()}

    def script(self, doubles=None, ints=None, cycle=False):
        self._mode.value = 1
        self._cycle.value = 1 if cycle else 0
        d = list(doubles or [])
        i = list(ints or [])
        self.lib.verif_set_script_d((ctypes.c_double * len(d))(*d), len(d))
        self.lib.verif_set_script_i((ctypes.c_long * len(i))(*i), len(i))

    def passthrough(self):
        self._mode.value = 0

    def raw_script(self, words, cycle=True):
        w = [int(x) & 0xFFFFFFFF for x in (words or [])]
        self.lib.verif_set_raw_script((ctypes.c_uint32 * len(w))(*w), len(w), 1 if cycle else 0)

    def log_enabled(self, on):
        self._logen.value = 1 if on else 0

    def clock(self, values):
        v = [int(x) for x in values][:64]
        self.lib.verif_set_clock((ctypes.c_long * len(v))(*v), len(v))

    def log(self):
        n = self.get("verif_log_len")
        k = (ctypes.c_int * n)()
        b = (ctypes.c_int * n)()
        v = (ctypes.c_double * n)()
        m = self.lib.verif_get_log(k, b, v, n)
        return [(k[i], b[i], v[i]) for i in range(m)]

    def live_blocks(self):
        return self.lib.verif_live_blocks()

    def check_live(self):
        return self.lib.verif_check_live()

    def release_live(self):
        self.lib.verif_release_live()
