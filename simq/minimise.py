"""Delta debugging over recorded op lists (ddmin + per-op argument shrinking).

`test(ops) -> bool` must return True iff the SAME oracle still fails.  Every
sub-list of a recorded list is executable because operand slots are taken
modulo the number of live objects.
"""


def ddmin(ops, test):
    n = 2
    ops = list(ops)
    while len(ops) >= 2:
        chunk = max(1, len(ops) // n)
        reduced = False
        # try removing each chunk (complement test)
        i = 0
        while i < len(ops):
            cand = ops[:i] + ops[i + chunk:]
            if cand and test(cand):
                ops = cand
                n = max(n - 1, 2)
                reduced = True
            else:
                i += chunk
        if not reduced:
            if chunk == 1:
                break
            n = min(n * 2, len(ops))
    return ops


def shrink_args(ops, test, shrink_op, rounds=3):
    if shrink_op is None:
        return ops
    ops = list(ops)
    for _ in range(rounds):
        changed = False
        for i in range(len(ops)):
            progress = True
            while progress:
                progress = False
                for cand_op in shrink_op(ops[i]):
                    cand = ops[:i] + [cand_op] + ops[i + 1:]
                    if test(cand):
                        ops = cand
                        changed = progress = True
                        break
        if not changed:
            break
    return ops


def minimise(ops, test, shrink_op=None):
    # drop the tail after the failing step first (cheap)
    ops = list(ops)
    lo = ddmin(ops, test)
    lo = shrink_args(lo, test, shrink_op)
    lo2 = ddmin(lo, test)
    return lo2 if len(lo2) <= len(lo) else lo
