"""Shared pieces of the simulator: seeds, encoding, run loop, violations."""
import hashlib
import json
import random
import sys
import warnings
from collections import Counter

DEFAULT_SEED = 20261004


class Violation(Exception):
    """An oracle of the simulator failed.  `oracle` is a stable id."""

    def __init__(self, oracle, detail=""):
        super().__init__("%s: %s" % (oracle, detail))
        self.oracle = oracle
        self.detail = str(detail)[:2000]


class Discard(Exception):
    """The run cannot be judged any further (counted, never a verdict)."""


class HarnessError(Exception):
    """The harness itself is broken (never reported as a violation)."""


def derive(*parts):
    """One integer decides everything: derive sub-seeds by hashing."""
    h = hashlib.blake2b(repr(parts).encode(), digest_size=8).digest()
    return int.from_bytes(h, "big")


def run_seed(verif_seed, prop, run_index):
    return derive("run", int(verif_seed), prop, int(run_index))


def block_hashseed(verif_seed, prop, block_index):
    return derive("hashseed", int(verif_seed), prop, int(block_index)) % 1024


# ---------------------------------------------------------------- labels / JSON

def enc_label(l):
    if isinstance(l, tuple):
        return {"t": [enc_label(x) for x in l]}
    if isinstance(l, bool) or not isinstance(l, (int, str)):
        raise HarnessError("unsupported label %r" % (l,))
    return l


def dec_label(j):
    if isinstance(j, dict):
        return tuple(dec_label(x) for x in j["t"])
    if isinstance(j, list):      # tolerate list encoding
        return tuple(dec_label(x) for x in j)
    return j


def enc_key(k):
    return [enc_label(x) for x in k]


def dec_key(j):
    return tuple(dec_label(x) for x in j)


def enc_terms(d):
    """dict key-tuple -> number  ==> list of [key, coef] preserving order."""
    return [[enc_key(k), enc_num(v)] for k, v in d.items()]


def dec_terms(j):
    return [(dec_key(k), dec_num(v)) for k, v in j]


def enc_num(v):
    from fractions import Fraction
    if isinstance(v, Fraction):
        if v.denominator == 1:
            return int(v)
        return {"f": [v.numerator, v.denominator]}
    if isinstance(v, float) and v == int(v) and abs(v) < 2**53:
        return {"fl": int(v)} if False else v
    return v


def dec_num(j):
    from fractions import Fraction
    if isinstance(j, dict):
        n, d = j["f"]
        return Fraction(n, d)
    return j


def sort_key(x):
    """Total order over heterogeneous labels, independent of hashing."""
    return (type(x).__name__, repr(x))


def canon(obj):
    """Canonical JSON-able form: sets sorted, dict items sorted, tuples -> lists."""
    from fractions import Fraction
    if isinstance(obj, dict):
        return {"__d": sorted(([canon(k), canon(v)] for k, v in obj.items()), key=lambda kv: json.dumps(kv[0], sort_keys=True, default=str))}
    if isinstance(obj, (set, frozenset)):
        return {"__s": sorted((canon(x) for x in obj), key=lambda x: json.dumps(x, sort_keys=True, default=str))}
    if isinstance(obj, (list, tuple)):
        return [canon(x) for x in obj]
    if isinstance(obj, Fraction):
        return [obj.numerator, obj.denominator]
    if isinstance(obj, float):
        if obj != obj:
            return "nan"
        if obj in (float("inf"), float("-inf")):
            return repr(obj)
        if obj == int(obj):
            return int(obj)
        return obj
    if isinstance(obj, (int, str, bool)) or obj is None:
        return obj
    return repr(obj)


def digest(obj):
    return hashlib.blake2b(json.dumps(canon(obj), sort_keys=True, default=str).encode(), digest_size=8).hexdigest()


# ---------------------------------------------------------------- the run loop

class RunResult:
    __slots__ = ("cfg", "ops", "violation", "step", "digest", "probes", "faults",
                 "interesting", "steps", "discarded", "extra")

    def as_failure(self):
        return {"cfg": self.cfg, "ops": self.ops, "oracle": self.violation.oracle,
                "detail": self.violation.detail, "step": self.step}


def execute(engine, prop, cfg, rng=None, ops=None, max_ops=None, oplog=None):
    """Run one history.  Either `rng` (online generation) or `ops` (replay)."""
    res = RunResult()
    res.cfg, res.ops, res.violation, res.step = cfg, [], None, None
    events = []
    with warnings.catch_warnings():
        warnings.simplefilter("ignore")
        world = engine.World(prop, cfg)
        i = 0
        try:
            while True:
                if ops is not None:
                    op = ops[i] if i < len(ops) else None
                else:
                    op = world.gen_op(rng) if (max_ops is None or i < max_ops) else None
                if op is None:
                    break
                res.ops.append(op)
                if oplog is not None:
                    oplog.write(json.dumps({"op": op}) + "\n")
                    oplog.flush()
                events.append(world.apply(op))
                i += 1
            res.step = i
            events.append(world.finish())
        except Violation as v:
            res.violation = v
            res.step = i
        except Discard as d:
            world.discarded = "aborted:" + str(d)[:60]
            res.step = i
        except HarnessError:
            raise
        except Exception as e:      # a bug of the harness inside ONE run: discard the run, count it, keep the trace
            import traceback
            world.discarded = "harness_exception:" + type(e).__name__
            world.extra = dict(getattr(world, "extra", {}) or {})
            world.extra["_harness_trace"] = traceback.format_exc()[-1500:]
            res.step = i
        finally:
            try:
                world.close()
            except Exception:
                pass
    res.digest = digest(events)
    res.probes = Counter(world.probes)
    res.faults = Counter(world.faults)
    res.interesting = bool(world.interesting)
    res.steps = int(world.steps)
    res.discarded = getattr(world, "discarded", None)
    res.extra = dict(getattr(world, "extra", {}) or {})
    return res


class BaseWorld:
    """Common bookkeeping for engine worlds."""

    def __init__(self, prop, cfg):
        self.prop, self.cfg = prop, cfg
        self.probes, self.faults = Counter(), Counter()
        self.interesting = False
        self.steps = 0
        self.discarded = None
        self.extra = {}

    def finish(self):
        return None

    def close(self):
        pass

    def probe(self, name, n=1):
        self.probes[name] += n

    def fault(self, name, n=1):
        self.faults[name] += n
        self.interesting = True


def choose_weighted(rng, table):
    """table: list of (item, weight) — deterministic given rng."""
    total = sum(w for _, w in table)
    x = rng.random() * total
    for item, w in table:
        x -= w
        if x < 0:
            return item
    return table[-1][0]
