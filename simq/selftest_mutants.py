#!/venv/bin/python
"""Sensitivity campaign: apply each mutation to a scratch copy of /repo, run the
property's check against it (VERIF_REPO), optionally the repo's own tests.

usage: selftest_mutants.py [--only substr] [--prop Cxx] [--tests] [--tier quick] [--runs N]
"""
import argparse
import json
import os
import shutil
import subprocess
import sys
import tempfile
import time

sys.path.insert(0, os.path.dirname(os.path.dirname(os.path.abspath(__file__))))
from simq.mutants import M  # noqa: E402

HERE = os.path.dirname(os.path.abspath(__file__))
PY = "/venv/bin/python"


def make_copy(repo="/repo"):
    d = tempfile.mkdtemp(prefix="simq-mut-")
    subprocess.run(["rsync", "-a", "--exclude", ".git", "--exclude", "*.so", "--exclude", "__pycache__", "--exclude", "build",
                    "--exclude", "docs", "--exclude", "notebook_examples", "--exclude", "assets", repo + "/", d + "/"], check=True)
    return d


def apply(mut, root):
    if mut.get("patch"):
        p = subprocess.run(["git", "apply", "--unsafe-paths", "--directory", root, mut["patch"]], cwd="/", stdout=subprocess.PIPE, stderr=subprocess.STDOUT, text=True)
        if p.returncode:
            p = subprocess.run(["patch", "-p1", "-d", root, "-i", mut["patch"]], stdout=subprocess.PIPE, stderr=subprocess.STDOUT, text=True)
            if p.returncode:
                raise RuntimeError("patch failed: " + p.stdout)
        return
    path = os.path.join(root, mut["path"])
    s = open(path).read()
    if s.count(mut["old"]) != mut.get("count", 1):
        raise RuntimeError("mutant %s: pattern occurs %d times in %s" % (mut["name"], s.count(mut["old"]), mut["path"]))
    open(path, "w").write(s.replace(mut["old"], mut["new"]))


def run_check(prop, root, tier, runs, wall):
    out = os.path.join(root, "_verif_out")
    env = dict(os.environ, VERIF_REPO=root, VERIF_OUT=out)
    cmd = [PY, os.path.join(HERE, "cli.py"), "check", prop, "--tier", tier]
    if runs:
        cmd += ["--runs", str(runs)]
    if wall:
        cmd += ["--wall", str(wall)]
    t0 = time.time()
    p = subprocess.run(cmd, env=env, stdout=subprocess.PIPE, stderr=subprocess.STDOUT, text=True, timeout=3600)
    viol = [l for l in p.stdout.splitlines() if l.startswith("VIOLATION")]
    detail = [l.strip() for l in p.stdout.splitlines() if l.startswith("  oracle=") or l.startswith("  ==") or "runtime error" in l]
    return {"rc": p.returncode, "violations": len(viol), "wall": round(time.time() - t0, 1), "detail": detail[:3], "tail": p.stdout[-600:] if p.returncode == 2 else "",
            "replays": [l.split("replay=")[1].split()[0] for l in viol]}


def run_tests(root):
    b = subprocess.run([PY, "setup.py", "-q", "build_ext", "--inplace"], cwd=root, stdout=subprocess.PIPE, stderr=subprocess.STDOUT, text=True)
    if b.returncode:
        return {"build": "failed", "out": b.stdout[-500:]}
    p = subprocess.run([PY, "-m", "pytest", "-q", "-x", "-p", "no:cacheprovider", "-n", "8", "--timeout=900",
                        "--deselect", "tests/utils/test_subgraph.py"], cwd=root, stdout=subprocess.PIPE, stderr=subprocess.STDOUT, text=True,
                       env=dict(os.environ, PYTHONPATH=root))
    last = [l for l in p.stdout.splitlines() if "passed" in l or "failed" in l or "error" in l]
    return {"rc": p.returncode, "summary": last[-1] if last else p.stdout[-300:]}


def main():
    ap = argparse.ArgumentParser()
    ap.add_argument("--only")
    ap.add_argument("--prop")
    ap.add_argument("--tests", action="store_true")
    ap.add_argument("--tier", default="quick")
    ap.add_argument("--runs", type=int)
    ap.add_argument("--wall", type=float)
    ap.add_argument("--report", default=os.path.join(os.path.dirname(HERE), "selftest", "mutants_report.json"))
    a = ap.parse_args()
    rows = []
    for mut in M:
        if a.only and a.only not in mut["name"]:
            continue
        if a.prop and mut["prop"] != a.prop:
            continue
        root = make_copy()
        try:
            try:
                apply(mut, root)
            except RuntimeError as e:
                print("%-36s PATTERN-ERROR %s" % (mut["name"], e), flush=True)
                rows.append({"name": mut["name"], "prop": mut["prop"], "expect": mut["expect"], "verdict": "HARNESS-ERROR", "rc": 2, "detail": [str(e)]})
                continue
            r = run_check(mut["prop"], root, a.tier, a.runs, a.wall)
            if a.tests:
                r["tests"] = run_tests(root)
            caught = r["rc"] == 1 and r["violations"] > 0
            verdict = {"caught": "OK" if caught else "MISSED", "equivalent": "OK" if r["rc"] == 0 else "FALSE-ALARM",
                       "maybe": "caught" if caught else "not-caught"}[mut["expect"]]
            if r["rc"] == 2:
                verdict = "HARNESS-ERROR"
            row = {"name": mut["name"], "prop": mut["prop"], "expect": mut["expect"], "verdict": verdict, **r}
            rows.append(row)
            print("%-36s %-4s expect=%-10s -> %-13s rc=%d wall=%ss %s %s" % (mut["name"], mut["prop"], mut["expect"], verdict, r["rc"], r["wall"],
                                                                           (r["detail"][:1] or [""])[0][:150], r.get("tests", "")), flush=True)
            if r["tail"]:
                print(r["tail"])
        finally:
            shutil.rmtree(root, ignore_errors=True)
    os.makedirs(os.path.dirname(a.report), exist_ok=True)
    old = []
    if os.path.exists(a.report):
        try:
            old = json.load(open(a.report))
        except Exception:
            old = []
    names = {r["name"] for r in rows}
    merged = [r for r in old if r["name"] not in names] + rows
    json.dump(merged, open(a.report, "w"), indent=1)
    bad = [r for r in rows if r["verdict"] in ("MISSED", "FALSE-ALARM", "HARNESS-ERROR")]
    print("%d mutants, %d not as expected" % (len(rows), len(bad)))
    sys.exit(1 if bad else 0)


if __name__ == "__main__":
    main()
