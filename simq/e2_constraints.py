"""E2 — constraint-history machine (properties C02, C03, C08).

One live PCBO / PCSO.  Each history is an objective followed by comparison
(and, for C08, logical) constraints interleaved with copies, refreshes, info
round trips, objective edits and pure observations.  Per-step oracle: the
exact penalty semantics of the delta observed in the LIVE model; end-of-run
oracle (C08): the constrained optimum survives penalisation, reduction and
solution conversion.
"""
import warnings
from fractions import Fraction

import numpy as np

from .common import (BaseWorld, Violation, HarnessError, Discard, choose_weighted, enc_label, dec_label, enc_key, dec_key, sort_key)
from .refpoly import RefPoly, BOOL, SPIN, frac
from .refcons import RefConstraints, check_penalty, holds, holds_vec, RELS, effective_bounds

# A genuine, unrepaired defect (see known_findings.json) gets its own oracle id so that it is matched precisely.
KF_SOLVE = "solve_bruteforce_keyerror_on_constraint_only_variable"

ORACLES = {
    "C02": {"penalty_negative", "penalty_nonzero_on_satisfying_assignment", "penalty_below_lam_on_violating_assignment",
            "penalty_touches_foreign_variables", "ancilla_name_reused", "is_solution_valid_wrong", "constraint_recorded_wrong",
            "history_op_changed_model", "unexpected_exception", "unwarranted_unsat_warning"},
    "C03": {"penalty_negative", "penalty_nonzero_on_satisfying_assignment", "penalty_below_lam_on_violating_assignment",
            "penalty_touches_foreign_variables", "ancilla_name_reused", "is_solution_valid_wrong", "constraint_recorded_wrong",
            "history_op_changed_model", "unexpected_exception", "num_ancillas_too_small", "unwarranted_unsat_warning"},
    "C08": {"solve_bruteforce_not_optimal", "minimiser_not_feasible_optimal", "minimum_differs_from_constrained_optimum",
            "reduced_form_minimum_differs", "reduced_minimiser_not_feasible_optimal", "remove_ancilla_wrong", "unexpected_exception", KF_SOLVE},
}

LOGIC = ["AND", "OR", "XOR", "NAND", "NOR", "XNOR", "NOT", "BUFFER",
         "eq_AND", "eq_OR", "eq_XOR", "eq_NAND", "eq_NOR", "eq_XNOR", "eq_NOT", "eq_BUFFER"]


def lam_nonzero(op):
    return bool(op.get("lam"))


def gate(name, vals):
    if name == "AND":
        return int(all(vals))
    if name == "OR":
        return int(any(vals))
    if name == "XOR":
        return sum(vals) % 2
    if name == "NAND":
        return 1 - int(all(vals))
    if name == "NOR":
        return 1 - int(any(vals))
    if name == "XNOR":
        return 1 - sum(vals) % 2
    if name == "NOT":
        return 1 - vals[0]
    if name == "BUFFER":
        return vals[0]
    raise HarnessError(name)


class World(BaseWorld):
    def __init__(self, prop, cfg):
        super().__init__(prop, cfg)
        import qubovert as qv
        self.qv = qv
        self.kind = cfg["kind"]
        self.T = qv.PCBO if self.kind == BOOL else qv.PCSO
        self.active = ORACLES[prop]
        self.labels = [dec_label(l) for l in cfg["alphabet"]]
        self.H = None
        self.f = RefPoly(self.kind)          # objective
        self.cons = RefConstraints()          # comparison constraints (reference)
        self.logic = []                       # logical constraints [(name, args)] (reference truth functions)
        self.issued = set()
        self.lams = []
        self.penalties = []
        self.nops = 0
        self.unsat_warned = False
        self.n_anc_cons = 0
        self.lam0_constraints = 0
        self.forks = []
        self.fork_mode = False

    def fail(self, oracle, detail):
        if oracle in self.active:
            raise Violation(oracle, detail)
        self.probe("other_property_oracle:" + oracle)

    # ================================================================ reading the live model
    def stored(self):
        p = RefPoly(self.kind)
        for k, v in dict.items(self.H):
            p.add_term(tuple(k), v)
        return p

    def recorded(self):
        rc = RefConstraints()
        for rel, lst in self.H._constraints.items():
            for c in lst:
                p = RefPoly(self.kind)
                for k, v in dict.items(c):
                    p.add_term(tuple(k), v)
                rc.add(rel, p)
        return rc

    # ================================================================ generation
    def gen_poly_terms(self, rng, nvars, maxdeg, nterms, coefs, offset_p=0.5):
        labs = self.labels[:]
        terms = {}
        vs = rng.sample(labs, min(nvars, len(labs)))
        for _ in range(nterms):
            d = rng.randint(1, min(maxdeg, len(vs)))
            k = tuple(sorted(rng.sample(vs, d), key=sort_key))
            terms[k] = rng.choice(coefs)
        if rng.random() < offset_p:
            terms[()] = rng.choice([-3, -2, -1, 1, 2, 3, -5, 5, -7, 7])
        return [[enc_key(k), v] for k, v in terms.items()]

    def gen_special(self, rng):
        """Shapes that reach the shortcut branches of the implementation."""
        L = self.labels
        x, y = rng.sample(L, 2)
        z = rng.choice([l for l in L if l not in (x, y)] or [x])
        shape = rng.choice(["sum_le_1", "x_le_y", "one_le_sum", "z_eq_xy", "unary_min_offset", "neg_sum"])
        if shape == "sum_le_1":
            vs = rng.sample(L, min(len(L), rng.randint(2, 3)))
            return "le", [[enc_key((v,)), 1] for v in vs] + [[[], -1]]
        if shape == "x_le_y":
            return "le", [[enc_key((x,)), 1], [enc_key((y,)), -1]]
        if shape == "one_le_sum":
            return "le", [[[], 1], [enc_key((x,)), -1], [enc_key((y,)), -1]]
        if shape == "z_eq_xy" and z not in (x, y):
            return "eq", [[enc_key((z,)), 1], [enc_key(tuple(sorted((x, y), key=sort_key))), -1]]
        if shape == "unary_min_offset":
            return "le", [[enc_key((x,)), 1], [enc_key((y,)), 1], [[], -2]]
        return rng.choice(["le", "lt", "ge", "gt"]), [[enc_key((x,)), -1], [enc_key((y,)), -2], [[], 1]]

    def gen_special_any(self, rng):
        """gen_special, its near misses (one coefficient or the offset of a shortcut shape changed, so that the shape is
        almost but not quite the special one), and - for spin models - the spin polynomial whose boolean image is such a shape."""
        rel, terms = self.gen_special(rng)
        terms = [[k, v] for k, v in terms]
        if rng.random() < self.cfg.get("p_near_miss", 0.4):
            i = rng.randrange(len(terms))
            how = rng.choice(["double", "inc", "negate_other", "scale_all"])
            if how == "double":
                terms[i][1] *= 2
            elif how == "inc":
                terms[i][1] += 1 if terms[i][1] > 0 else -1
            elif how == "scale_all":
                f = rng.choice([2, 3, -1])
                terms = [[k, v * f] for k, v in terms]
            else:
                terms[i][1] = -terms[i][1]
            terms = [[k, v] for k, v in terms if v]
            if not terms:
                return self.gen_special(rng) if self.kind == BOOL else ("le", [[enc_key((self.labels[0],)), 1]])
            self.probe("near_miss_of_shortcut_shape")
        if self.kind == BOOL:
            return rel, terms
        P = RefPoly(BOOL, [(dec_key(k), v) for k, v in terms]).to_spin()
        den = P.denominator()
        out = []
        for k, v in P.t.items():
            v = v * den
            out.append([enc_key(tuple(sorted(k, key=sort_key))), int(v)])
        if not out:
            return "le", [[enc_key((self.labels[0],)), 1]]
        self.probe("spin_constraint_with_shortcut_boolean_image")
        return rel, out

    def gen_skewed(self, rng):
        """Ranges that straddle zero asymmetrically ([-m, 1], [-1, m], [-m, 2] ...): slack sizing must cover the long side."""
        L = self.labels
        k = rng.randint(2, min(4, len(L)))
        vs = rng.sample(L, k)
        sign = rng.choice([1, -1])
        coefs = [rng.choice([1, 2, 3, 3, 4]) for _ in vs]
        S = sum(coefs)
        if self.kind == BOOL:
            off = -sign * rng.choice([1, 1, 2])          # range [off, off + S] or [off - S, off]
        else:
            off = sign * (S - rng.choice([1, 1, 2]))      # range [off - S, off + S]
        terms = [[enc_key((v,)), sign * c] for v, c in zip(vs, coefs)] + [[[], off]]
        if rng.random() < 0.3 and k >= 2:
            terms.append([enc_key(tuple(sorted(vs[:2], key=sort_key))), sign * rng.choice([1, 2])])
        return rng.choice(RELS), terms

    def gen_cons(self, rng):
        c = self.cfg
        r = rng.random()
        if rng.random() < c.get("p_bigcoef", 0.0):
            # an equality (no slack needed) with large odd coefficients: the penalty's coefficients are ~2^32, with fractional
            # parts 1/2 and 1/4 after boolean<->spin conversion, all still exact
            rel = "eq"
            terms = self.gen_poly_terms(rng, rng.randint(1, 3), min(2, c["cons_deg"]), rng.randint(1, 3),
                                        [65537, -65537, 40001, 1, -1], 0.5)
            self.probe("constraint_with_large_odd_coefficients")
        elif rng.random() < c.get("p_wide", 0.0):
            # an inequality over two variables with weights in the ten thousands: ~16 log-trick slack bits, penalty
            # coefficients up to ~2^30 (knapsack-like constraints of real users; exact truth table of 2^18..2^19 rows)
            vs = rng.sample(self.labels, 2)
            rel = rng.choice(["le", "ge", "lt", "gt"])
            terms = [[enc_key((vs[0],)), rng.choice([20000, 13000, -20000, 17001, 30011])],
                     [enc_key((vs[1],)), rng.choice([13000, -17001, 20000, 9999])], [[], rng.choice([-1000, 0, 999, -12345])]]
            lam = rng.choice([1, 1, 3, 2])
            self.probe("wide_inequality_generated")
            return {"op": "cons", "rel": rel, "P": terms, "lam": lam, "log_trick": True, "bounds": None, "wide": True}
        elif r < c.get("p_skewed", 0.2):
            rel, terms = self.gen_skewed(rng)
        elif r < c.get("p_skewed", 0.2) + c["p_special"]:
            rel, terms = self.gen_special_any(rng)
        else:
            rel = rng.choice(RELS)
            terms = self.gen_poly_terms(rng, rng.randint(1, c["cons_vars"]), c["cons_deg"], rng.randint(1, 3), c["cons_coefs"])
        P = RefPoly(self.kind, [(dec_key(k), v) for k, v in terms])
        lo, hi = P.extrema() if P.variables() else (P.offset(), P.offset())
        log_trick = rng.random() < 0.5
        if not log_trick and hi - lo > 6:
            log_trick = True
        mode = rng.choice(["none", "none", "lo", "hi", "both", "both"])
        d1, d2 = rng.choice([0, 0, 1, 2]), rng.choice([0, 0, 1, 2])
        if log_trick and rng.random() < 0.15:
            d1, d2 = rng.choice([0, 5, 11]), rng.choice([0, 6, 13])      # valid but loose enclosures
        if c.get("half_bounds") and rng.random() < 0.3:
            d1, d2 = d1 + 0.5, d2 + 0.5
        if not log_trick and (hi + d2) - (lo - d1) > 6:
            d1 = d2 = 0
        bounds = {"none": None, "lo": [float(lo) - d1, None], "hi": [None, float(hi) + d2], "both": [float(lo) - d1, float(hi) + d2]}[mode]
        if bounds:
            bounds = [int(b) if b is not None and b == int(b) else b for b in bounds]
        if self.prop == "C08":
            flo, fhi = self.f.extrema() if self.f.variables() else (self.f.offset(), self.f.offset())
            # any weight that EXCEEDS max f - min f qualifies: also ones that exceed it only barely
            lam = float(fhi - flo) + rng.choice([1, 1, 1.5, 2, 4, 0.125, 0.25, 0.5])
            if lam == int(lam):
                lam = int(lam)
        else:
            lam = rng.choice(c["lams"])
        op = {"op": "cons", "rel": rel, "P": terms, "lam": lam, "log_trick": log_trick, "bounds": bounds}
        if rng.random() < 0.25:
            op["suppress_warnings"] = True
        if rng.random() < c.get("p_model_arg", 0.3):
            # the constraint is handed over as a live model object which the caller keeps editing afterwards
            op["as"] = rng.choice(["PUBO", "PCBO"] if self.kind == BOOL else ["PUSO", "PCSO"])
            op["mutate_after"] = rng.choice(["iadd_const", "iadd_var", "isub_self", "clear", "none"])
        return op

    def gen_logic(self, rng):
        name = rng.choice(LOGIC)
        L = self.labels
        base = name[3:] if name.startswith("eq_") else name
        if base in ("NOT", "BUFFER"):
            n = 1
        else:
            n = rng.randint(2, min(3, len(L) - (1 if name.startswith("eq_") else 0)))
        need = n + (1 if name.startswith("eq_") else 0)
        if need > len(L):
            return None
        args = rng.sample(L, need)
        flo, fhi = self.f.extrema() if self.f.variables() else (self.f.offset(), self.f.offset())
        lam = float(fhi - flo) + rng.choice([1, 1, 2, 3.5, 0.125, 0.5])
        if lam == int(lam):
            lam = int(lam)
        return {"op": "logic", "method": name, "args": [enc_label(a) for a in args], "lam": lam}

    def gen_op(self, rng):
        c = self.cfg
        if self.H is None:
            terms = self.gen_poly_terms(rng, rng.randint(2, c["obj_vars"]), c["obj_deg"], rng.randint(1, 4), c["obj_coefs"], 0.4)
            if c.get("big_offset"):
                # an objective far from zero (still exact): values ~2^36 that differ by units, i.e. by < 1e-9 relatively
                terms = [t for t in terms if t[0]] + [[[], c["big_offset"] + rng.choice([0, 1, -3])]]
            return {"op": "start", "terms": terms}
        if self.nops >= c["n_ops"]:
            return None
        ncons = len(self.cons.items) + len(self.logic)
        if getattr(self, "window", 0) == 1 and c.get("w_remap", 0) > 0 and rng.random() < 0.5:
            # a converted form has just been taken from this object: re-pin the mapping now, while nothing else has changed
            return {"op": "remap", "how": rng.choice(["set_mapping", "set_reverse_mapping"]), "r": rng.randrange(1 << 16)}
        table = [("cons", 5 if ncons < c["max_cons"] else 0), ("logic", c["w_logic"] if (self.kind == BOOL and ncons < c["max_cons"]) else 0),
                 ("obj", c["w_obj"]), ("copy", c["w_hist"]), ("refresh", c["w_hist"]), ("info", c["w_hist"]),
                 ("observe", c["w_obs"]), ("valid", 0.7), ("remap", c.get("w_remap", 0))]
        kind = choose_weighted(rng, table)
        if kind == "cons":
            return self.gen_cons(rng)
        if kind == "logic":
            return self.gen_logic(rng) or self.gen_cons(rng)
        if kind == "obj":
            return {"op": "obj", "terms": self.gen_poly_terms(rng, rng.randint(1, 2), min(2, c["obj_deg"]), 1, c["obj_coefs"], 0.2)}
        if kind == "observe":
            return {"op": "observe", "what": rng.choice(["to_pubo", "to_puso", "to_qubo", "to_quso", "solve"])}
        if kind == "copy":
            return {"op": "copy", "keep": rng.choice(["copy", "original"])}
        if kind == "remap":
            return {"op": "remap", "how": rng.choice(["set_mapping", "set_reverse_mapping"]), "r": rng.randrange(1 << 16)}
        return {"op": kind}

    # ================================================================ execution
    def apply(self, op):
        self.nops += 1
        self.steps += 1
        kind = op["op"]
        with warnings.catch_warnings(record=True) as wl:
            warnings.simplefilter("always")
            self.wlist = wl
            if kind == "start":
                return self.do_start(op)
            if self.H is None:
                return [kind, "no-model"]
            fn = getattr(self, "do_" + kind)
            if kind in ("cons", "logic", "obj", "copy", "refresh", "info"):
                self.window = 0          # terms changed / object replaced: conversions taken before are history
            out = fn(op)
            if kind == "observe" and op.get("what") != "solve":
                self.window = 1          # a converted form has been taken from this very object ...
            elif kind == "remap" and getattr(self, "window", 0) >= 1:
                self.window = 2          # ... and the mapping was pinned afterwards, with no term change in between
                self.probe("mapping_pinned_after_a_conversion")
            return [kind, out]

    def do_start(self, op):
        terms = [(dec_key(k), v) for k, v in op["terms"]]
        try:
            self.H = self.T(terms)
        except Exception as e:
            self.fail("unexpected_exception", "constructing objective: %s: %s" % (type(e).__name__, e))
            raise Discard("objective")
        self.f = RefPoly(self.kind, terms)
        return ["start", len(terms)]

    def n_vars_total(self):
        return len(self.stored().variables() | self.f.variables() | self.cons.variables())

    def do_cons(self, op):
        rel = op["rel"]
        terms = [(dec_key(k), v) for k, v in op["P"]]
        P = RefPoly(self.kind, terms)
        if not P.is_integer() or len(P.variables()) > 5:
            return "skipped"
        Parg = {}
        for k, v in terms:
            Parg[k] = Parg.get(k, 0) + v
        Parg0 = dict(Parg)
        if op.get("as"):
            Parg = getattr(self.qv, op["as"])(Parg)
            Parg0 = dict(dict.items(Parg))
        kw = {"lam": op["lam"]}
        if rel != "eq":
            kw["log_trick"] = bool(op["log_trick"])
        if op.get("bounds"):
            kw["bounds"] = tuple(op["bounds"])
        if op.get("suppress_warnings"):
            kw["suppress_warnings"] = True
        lo, hi = P.extrema() if P.variables() else (P.offset(), P.offset())
        # cap the number of slack ancillas (unary slack creates one per unit)
        span_lo = min(lo, frac(op["bounds"][0])) if op.get("bounds") and op["bounds"][0] is not None else lo
        span_hi = max(hi, frac(op["bounds"][1])) if op.get("bounds") and op["bounds"][1] is not None else hi
        if rel != "eq" and not op["log_trick"] and span_hi - span_lo > 7:
            kw["log_trick"] = True
        elo, ehi = effective_bounds(P, op.get("bounds"))
        mag = max(abs(elo), abs(ehi), ehi - elo)      # unary slack: one ancilla per unit of min_val / range
        if mag > 8 and rel != "eq":
            kw["log_trick"] = True
        wide = bool(op.get("wide")) and kw.get("log_trick") and mag <= (1 << 17) and len(P.variables()) <= 2 and self.prop != "C08"
        if (span_hi - span_lo > 64 or mag > 200) and not wide:
            return "skipped"
        if wide:
            self.fault("wide_slack_register")
        if self.n_vars_total() > (11 if not self.cfg.get("deep") else 60):
            return "skipped-large"
        if self.cfg.get("deep"):
            self.probe("deep_history_constraint")
        where = "%s.add_constraint_%s_zero(%r, %r)" % (self.T.__name__, rel, P, kw)
        H_before = self.stored()
        anc_before = self.H.num_ancillas
        try:
            ret = getattr(self.H, "add_constraint_%s_zero" % rel)(Parg, **kw)
        except Exception as e:
            self.fail("unexpected_exception", "%s: %s: %s" % (where, type(e).__name__, e))
            raise Discard("exception in constraint")
        if dict(Parg) != Parg0:
            self.probe("other_property_oracle:argument_mutated")
        H_after = self.stored()
        msgs = [str(x.message) for x in self.wlist]
        warned_unsat = any("cannot be satisfied" in m for m in msgs)
        always = any("always satisfied" in m for m in msgs)
        self.wlist.clear()
        # reference verdict on satisfiability (exact, from the truth table of P)
        pv = sorted(P.variables(), key=sort_key)
        ptab, _ = P.table(pv)
        satisfiable = bool(holds_vec(rel, ptab).any())
        if op.get("suppress_warnings"):
            if msgs:
                self.fail("unexpected_exception", "%s: warning emitted although suppress_warnings=True: %r" % (where, msgs[:1])) if False else self.probe("warning_despite_suppress")
            # without the warning channel the "cannot be satisfied" exemption applies exactly when it is true
            warned_unsat = not satisfiable
            self.probe("suppress_warnings_calls")
        elif warned_unsat and satisfiable and lam_nonzero(op):
            self.fail("unwarranted_unsat_warning", "%s: the library warned 'Constraint cannot be satisfied' but P %s 0 holds for %d assignment(s) "
                      "(the bounds given were valid enclosures)" % (where, rel, int(holds_vec(rel, ptab).sum())))
        if warned_unsat:
            self.probe("warning_cannot_be_satisfied")
            self.unsat_warned = True
        if always:
            self.probe("warning_always_satisfied")
        self.cons.add(rel, P)
        lam = op["lam"]
        info = {"new_ancillas": set()}
        if lam:
            try:
                info = check_penalty(H_before, H_after, P, rel, lam, self.issued, warned_unsat, max_bits=20 if wide else 14)
                if wide and not info.get("skipped"):
                    self.probe("wide_slack_register_judged")
            except Violation as v:
                if v.oracle in self.active:
                    v.detail = where + ": " + v.detail
                    raise Violation(v.oracle, v.detail)
                self.probe("other_property_oracle:" + v.oracle)
            self.lams.append(frac(lam))
        else:
            self.lam0_constraints += 1
        new = info.get("new_ancillas", set())
        self.probe("rel_%s_%s" % (rel, "log" if kw.get("log_trick", True) else "unary"))
        if new:
            self.n_anc_cons += 1
            self.probe("constraints_with_ancillas")
            if self.n_anc_cons >= 2:
                self.probe("second_ancilla_bearing_constraint")
                self.interesting = True
            if anc_before and self.kind == SPIN:
                self.probe("pcso_handoff_nonzero_counter")
        self.issued |= new
        self.check_counter(where)
        # the recorded constraint is exactly P under rel
        got, want = self.recorded().canonical(), self.cons.canonical()
        if got != want and not self.logic:
            self.fail("constraint_recorded_wrong", "%s: recorded constraints %r, expected %r" % (where, got, want))
        self.check_valid(where)
        if op.get("as") and op.get("mutate_after", "none") != "none":
            # injected fault: the caller goes on editing the object it passed; the recorded constraint must not follow
            try:
                m = op["mutate_after"]
                l0 = self.labels[0]
                if m == "iadd_const":
                    Parg += 5
                elif m == "iadd_var":
                    Parg[(l0,)] += 3
                elif m == "isub_self":
                    Parg -= Parg
                else:
                    Parg.clear()
            except Exception:
                pass
            self.fault("argument_object_mutated_after_call")
            got = self.recorded().canonical()
            if got != want and not self.logic:
                self.fail("constraint_recorded_wrong", "%s: after the caller edited the object it had passed (%s), the recorded constraints became %r, expected %r" %
                          (where, op["mutate_after"], got, want))
            self.check_valid(where + " after argument mutation")
        self.interesting = self.interesting or bool(new) or warned_unsat
        return [rel, sorted(map(str, new)), warned_unsat, always]

    def check_counter(self, where):
        present = {v for v in self.stored().variables() if isinstance(v, str) and v.startswith("__a") and v[3:].isdigit()}
        n = self.H.num_ancillas
        bad = [v for v in present if int(v[3:]) >= n]
        if bad:
            self.fail("num_ancillas_too_small", "%s: ancillas %r present but num_ancillas = %d" % (where, sorted(bad), n))

    def check_valid(self, where, cap=512):
        """is_solution_valid agrees with the reference constraints on every assignment."""
        if self.logic:
            return
        vs = sorted(self.stored().variables() | self.cons.variables() | self.f.variables(), key=sort_key)
        if len(vs) > 12:
            return
        xs = [v for v in vs if not (isinstance(v, str) and v.startswith("__a"))]
        ok = self.cons.valid_table(xs) if self.cons.items else np.ones(1 << len(xs), dtype=bool)
        nrows = 1 << len(vs)
        step = max(1, nrows // cap)
        pos = {l: j for j, l in enumerate(xs)}
        for r in range(0, nrows, step):
            full = RefPoly.row_assignment(self.kind, vs, r)
            rx = RefPoly.assignment_row(self.kind, xs, full)
            try:
                got = bool(self.H.is_solution_valid(full))
            except Exception as e:
                self.fail("unexpected_exception", "%s: is_solution_valid(%r): %s: %s" % (where, full, type(e).__name__, e))
                return
            if got != bool(ok[rx]):
                self.fail("is_solution_valid_wrong", "%s: is_solution_valid(%r) = %r but the recorded constraints %r give %r" %
                          (where, full, got, self.cons.canonical(), bool(ok[rx])))
                return
        self.probe("validity_rows", len(range(0, nrows, step)))

    # ---------------------------------------------------------------- logical constraints (C08 workload only)
    def do_logic(self, op):
        if self.kind != BOOL:
            return "skipped"
        name, args, lam = op["method"], [dec_label(a) for a in op["args"]], op["lam"]
        if self.n_vars_total() > 11:
            return "skipped-large"
        where = "PCBO.add_constraint_%s(%r, lam=%r)" % (name, args, lam)
        try:
            getattr(self.H, "add_constraint_" + name)(*args, lam=lam)
        except Exception as e:
            self.fail("unexpected_exception", "%s: %s: %s" % (where, type(e).__name__, e))
            raise Discard("exception in logic")
        self.logic.append((name, args))
        self.lams.append(frac(lam))
        self.probe("logical_constraints")
        return name

    def logic_ok(self, x):
        for name, args in self.logic:
            if name.startswith("eq_"):
                if x[args[0]] != gate(name[3:], [x[a] for a in args[1:]]):
                    return False
            elif not gate(name, [x[a] for a in args]):
                return False
        return True

    # ---------------------------------------------------------------- history ops
    def do_obj(self, op):
        terms = [(dec_key(k), v) for k, v in op["terms"]]
        d = {}
        for k, v in terms:
            d[k] = d.get(k, 0) + v
        before = self.stored()
        try:
            self.H += d
        except Exception as e:
            self.fail("unexpected_exception", "H += %r: %s: %s" % (d, type(e).__name__, e))
            raise Discard("exception")
        add = RefPoly(self.kind, terms)
        if self.stored() != before + add:
            self.fail("history_op_changed_model", "H += %r did not add exactly those terms" % (d,))
        self.f = self.f + add
        return "obj"

    def history_check(self, name, before, cons_before, anc_before):
        after = self.stored()
        if after != before:
            self.fail("history_op_changed_model", "%s changed the polynomial: %r -> %r" % (name, before, after))
        if self.recorded().canonical() != cons_before:
            self.fail("history_op_changed_model", "%s changed the recorded constraints" % name)
        if self.H.num_ancillas != anc_before:
            self.fail("ancilla_name_reused", "%s changed num_ancillas %d -> %d: the next constraint will reuse an ancilla name" %
                      (name, anc_before, self.H.num_ancillas))
        self.fault("history_" + name)

    def do_copy(self, op):
        before, cb, ab = self.stored(), self.recorded().canonical(), self.H.num_ancillas
        old = self.H
        try:
            self.H = self.H.copy()
        except Exception as e:
            self.fail("unexpected_exception", "copy: %s: %s" % (type(e).__name__, e))
            raise Discard("exception")
        self.history_check("copy", before, cb, ab)
        if self.issued:
            self.probe("constraint_after_copy_possible")
        # the history continues on one side; the other side is shelved with its own reference and must stay as it is
        other = old
        if op.get("keep") == "original":
            other, self.H = self.H, old
        if len(self.forks) < 3:
            self.forks.append({"obj": other, "stored": before, "recorded": cb, "anc": ab, "f": self.f.copy(), "cons": self.cons.copy(),
                               "logic": list(self.logic), "lams": list(self.lams), "unsat": self.unsat_warned, "lam0": self.lam0_constraints,
                               "issued": set(self.issued)})
            self.fault("fork_shelved")
        return "copy"

    def do_refresh(self, op):
        before, cb, ab = self.stored(), self.recorded().canonical(), self.H.num_ancillas
        try:
            self.H.refresh()
        except Exception as e:
            self.fail("unexpected_exception", "refresh: %s: %s" % (type(e).__name__, e))
            raise Discard("exception")
        self.history_check("refresh", before, cb, ab)
        return "refresh"

    def do_info(self, op):
        from qubovert.utils import get_info, create_from_info
        before, cb, ab = self.stored(), self.recorded().canonical(), self.H.num_ancillas
        try:
            self.H = create_from_info(get_info(self.H))
        except Exception as e:
            self.fail("unexpected_exception", "info round trip: %s: %s" % (type(e).__name__, e))
            raise Discard("exception")
        self.history_check("info_roundtrip", before, cb, ab)
        return "info"

    def do_remap(self, op):
        """The user pins another label -> index mapping (documented: set_mapping / set_reverse_mapping) in the middle of the
        model's life, e.g. after a conversion has already been taken: a permutation of the current one."""
        import random as _r
        before, cb, ab = self.stored(), self.recorded().canonical(), self.H.num_ancillas
        try:
            cur = self.H.mapping
            labs = sorted(cur, key=sort_key)
            idx = sorted(cur.values())
            _r.Random(op.get("r", 0)).shuffle(idx)
            new = dict(zip(labs, idx))
            if op["how"] == "set_mapping":
                self.H.set_mapping(new)
            else:
                self.H.set_reverse_mapping({i: l for l, i in new.items()})
            if self.H.mapping != new:
                self.probe("mapping_not_taken_over")
        except Exception as e:
            self.fail("unexpected_exception", "%s: %s: %s" % (op["how"], type(e).__name__, e))
            raise Discard("exception")
        self.fault("user_mapping_pinned_mid_history")
        self.history_check(op["how"], before, cb, ab)
        return "remap"

    def do_valid(self, op):
        self.check_valid("valid")
        return "valid"

    def do_observe(self, op):
        what = op["what"]
        before, cb, ab = self.stored(), self.recorded().canonical(), self.H.num_ancillas
        if len(before.variables()) > 10:
            return "skipped"
        try:
            if what == "solve":
                self.H.solve_bruteforce()
            else:
                getattr(self.H, what)()
        except Exception as e:
            self.probe("observe_raised:%s:%s:%s" % (what, type(e).__name__, str(e)[:40]))
        after = self.stored()
        if after != before or self.recorded().canonical() != cb or self.H.num_ancillas != ab:
            self.fail("history_op_changed_model", "%s changed the model" % what)
        return what

    # ================================================================ end-of-run workflow oracle (C08)
    def finish(self):
        if self.H is None:
            return None
        out = self.workflow()
        keep = (self.H, self.f, self.cons, self.logic, self.lams, self.unsat_warned, self.lam0_constraints, self.issued, self.discarded)
        for i, fk in enumerate(self.forks):
            self.H, self.f, self.cons, self.logic, self.lams = fk["obj"], fk["f"], fk["cons"], fk["logic"], fk["lams"]
            self.unsat_warned, self.lam0_constraints, self.issued = fk["unsat"], fk["lam0"], fk["issued"]
            self.fork_mode = True
            try:
                # a shelved side must not have been touched by what happened to the other side afterwards
                if self.stored() != fk["stored"] or self.H.num_ancillas != fk["anc"]:
                    self.fail("history_op_changed_model", "fork %d (shelved at a copy) was changed by later operations on the other side" % i)
                if self.recorded().canonical() != fk["recorded"]:
                    self.probe("fork_constraints_changed")
                    self.fail("constraint_recorded_wrong", "fork %d (shelved at a copy): its recorded constraints changed through later operations on the "
                              "other side: %r -> %r" % (i, fk["recorded"], self.recorded().canonical()))
                self.check_valid("fork %d" % i)
                self.workflow()
            finally:
                self.fork_mode = False
        (self.H, self.f, self.cons, self.logic, self.lams, self.unsat_warned, self.lam0_constraints, self.issued, self.discarded) = keep
        return out

    def workflow(self):
        if self.prop != "C08" or self.H is None:
            return None
        if not (self.cons.items or self.logic):
            self.discarded = "no_constraint"
            return None
        if self.unsat_warned:
            self.discarded = "library_warned_unsatisfiable"
            return None
        if self.lam0_constraints:
            self.discarded = "lam_zero_constraint"
            return None
        xs = sorted(self.f.variables() | self.cons.variables() | {a for _, args in self.logic for a in args}, key=sort_key)
        if len(xs) > 8:
            self.discarded = "too_many_variables"
            return None
        ftab, fden = self.f.table(xs)
        feas = self.cons.valid_table(xs) if self.cons.items else np.ones(1 << len(xs), dtype=bool)
        if self.logic:
            for r in range(1 << len(xs)):
                if feas[r] and not self.logic_ok(RefPoly.row_assignment(self.kind, xs, r)):
                    feas[r] = False
        if not feas.any():
            self.discarded = "infeasible"
            return None
        rng_f = Fraction(int(ftab.max()) - int(ftab.min()), fden)
        if any(l <= rng_f for l in self.lams):
            self.discarded = "weight_not_above_range"
            return None
        opt_i = int(ftab[feas].min())
        opt = Fraction(opt_i, fden)
        self.interesting = True
        self.probe("workflow_checked")
        if getattr(self, "window", 0) == 2 and not self.fork_mode:
            self.probe("workflow_after_conversion_then_remap")
        H = self.H

        def judge(x, what, oracle):
            """x: assignment of (at least) the original variables."""
            try:
                r = RefPoly.assignment_row(self.kind, xs, x)
            except KeyError as e:
                self.fail(oracle, "%s: assignment %r lacks variable %s" % (what, x, e))
                return
            if not feas[r]:
                self.fail(oracle, "%s: %r is not feasible for constraints %r %r" % (what, x, self.cons.canonical(), self.logic))
            elif int(ftab[r]) != opt_i:
                self.fail(oracle, "%s: %r has objective %s, constrained optimum is %s" % (what, x, Fraction(int(ftab[r]), fden), opt))

        stored = self.stored()
        def check_forms():
            # 3. the four reduced / converted forms
            n = H.num_binary_variables
            forms = [("to_pubo", BOOL, {}), ("to_puso", SPIN, {}), ("to_qubo", BOOL, {}), ("to_quso", SPIN, {})]
            if stored.degree() > 2:
                forms += [("to_pubo", BOOL, {"deg": 2}), ("to_puso", SPIN, {"deg": 2})]
                if stored.degree() > 3:
                    forms += [("to_pubo", BOOL, {"deg": 3})]
            for form, dkind, fkw in forms:
                try:
                    D = getattr(H, form)(**fkw)
                except Exception as e:
                    self.fail("unexpected_exception", "%s: %s: %s" % (form, type(e).__name__, e))
                    continue
                labs = set(range(n))
                for k in dict.keys(D):
                    labs |= set(k)
                labs = sorted(labs)
                if len(labs) > 14:
                    self.probe("reduced_form_too_large")
                    continue
                Dp = RefPoly(dkind)
                for k, v in dict.items(D):
                    Dp.add_term(tuple(k), v)
                try:
                    tab, den = Dp.table(labs)
                except (OverflowError, ValueError):
                    self.probe("table_skipped")
                    continue
                mn = int(tab.min())
                if Fraction(mn, den) != opt:
                    self.fail("reduced_form_minimum_differs", "%s(): minimum %s but the constrained optimum is %s" % (form, Fraction(mn, den), opt))
                    continue
                for r in np.flatnonzero(tab == mn)[:16]:
                    s = RefPoly.row_assignment(dkind, labs, int(r))
                    for container in ("dict", "list"):
                        sol = dict(s) if container == "dict" else ([s[i] for i in range(len(labs))] if labs == list(range(len(labs))) else None)
                        if sol is None:
                            continue
                        try:
                            x = H.convert_solution(sol, spin=(dkind == SPIN))
                            x = H.remove_ancilla_from_solution(x)
                        except Exception as e:
                            self.fail("reduced_minimiser_not_feasible_optimal", "%s(): convert_solution(%r) raised %s: %s" % (form, sol, type(e).__name__, e))
                            continue
                        judge(x, "%s() minimiser %r" % (form, s), "reduced_minimiser_not_feasible_optimal")
                self.probe("form_" + form + ("_deg%d" % fkw["deg"] if fkw else ""))
                if any(l >= n for l in labs):
                    self.probe("reduction_ancillas_present")
                    if self.issued:
                        self.probe("reduction_and_constraint_ancillas_together")
        forms_done = False
        orphan0 = (self.cons.variables() | {a for _, args in self.logic for a in args}) - set(H.variables)
        if self.cfg.get("forms_first") and not orphan0 and not self.fork_mode:
            # the order in which a user takes the converted forms and calls the solver is his choice (a solver call in
            # between may resynchronise lazily maintained state): some runs take the forms first
            self.probe("forms_taken_before_solver_call")
            check_forms()
            forms_done = True
        # 1. solve_bruteforce
        allv = sorted(stored.variables() | set(xs), key=sort_key)
        # variables that occur in a recorded constraint but in no term of the model (always-satisfied constraint, lam=0)
        orphan = (self.cons.variables() | {a for _, args in self.logic for a in args}) - set(H.variables)
        if len(allv) <= 14:
            try:
                sol = H.solve_bruteforce()
            except KeyError as e:
                if orphan and e.args and e.args[0] in orphan:
                    self.probe("constraint_only_variable")
                    self.fail(KF_SOLVE, "solve_bruteforce() raised KeyError(%r): the variable occurs in a recorded constraint but in no term of the model, "
                              "so the solver never assigns it and is_solution_valid cannot evaluate the constraint" % (e.args[0],))
                else:
                    self.fail("unexpected_exception", "solve_bruteforce: KeyError: %s" % (e,))
                sol = None
            except Exception as e:
                self.fail("unexpected_exception", "solve_bruteforce: %s: %s" % (type(e).__name__, e))
                sol = None
            if orphan:
                # converted solutions cannot assign such a variable either: same root cause, not judged further
                self.discarded = "constraint_only_variable"
                return ["workflow", "orphan"]
            if self.fork_mode and sol is None:
                return ["workflow", "fork"]
            if sol is not None:
                dom0 = 0 if self.kind == BOOL else 1
                full = {l: sol.get(l, dom0) for l in xs}
                missing = [l for l in stored.variables() if l not in sol]
                if missing:
                    self.fail("solve_bruteforce_not_optimal", "solve_bruteforce solution %r lacks variables %r" % (sol, missing))
                judge(full, "solve_bruteforce()", "solve_bruteforce_not_optimal")
                # remove_ancilla_from_solution returns exactly the non-ancilla part
                try:
                    stripped = H.remove_ancilla_from_solution(sol)
                    want = {k: v for k, v in sol.items() if not (isinstance(k, str) and k.startswith("__a"))}
                    if stripped != want:
                        self.fail("remove_ancilla_wrong", "remove_ancilla_from_solution(%r) = %r, expected %r" % (sol, stripped, want))
                except Violation:
                    raise
                except Exception as e:
                    self.fail("unexpected_exception", "remove_ancilla_from_solution: %s: %s" % (type(e).__name__, e))
            # 2. every minimiser of the penalised model
            try:
                tab, den = stored.table(allv)
                mn = int(tab.min())
                if Fraction(mn, den) != opt:
                    self.fail("minimum_differs_from_constrained_optimum", "min of the penalised model = %s but the constrained optimum is %s (constraints %r %r, lams %r)" %
                              (Fraction(mn, den), opt, self.cons.canonical(), self.logic, [str(l) for l in self.lams]))
                for r in np.flatnonzero(tab == mn)[:32]:
                    s = RefPoly.row_assignment(self.kind, allv, int(r))
                    judge(H.remove_ancilla_from_solution(s), "minimiser of the penalised model", "minimiser_not_feasible_optimal")
            except (OverflowError, ValueError):
                self.probe("table_skipped")
        if orphan:
            # (model too large for steps 1-2) converted solutions cannot assign a constraint-only variable: K1's root cause
            self.discarded = "constraint_only_variable"
            return ["workflow", "orphan"]
        if self.fork_mode:
            self.probe("fork_workflow_checked")
            return ["workflow", "fork", str(opt)]
        if not forms_done:
            check_forms()
        return ["workflow", str(opt)]


# ==================================================================== configuration

ALPHABETS = {
    "int": [0, 1, 2, 3, 4],
    "str": ["a", "b", "c", "x0", "y"],
    "tuple": [("v", 0), ("v", 1), ("w", 0), ("a", 2)],
    "mixed": [0, 1, "a", "b", ("v", 0)],
    # user labels that merely resemble the reserved ancilla prefix '__a' (only labels STARTING with it are ancillas)
    "dunder": ["x__a0", "n__a1", "___a2", "__b0", "a__"],
}


def gen_cfg(rng, prop, tier):
    labels = rng.choice(["int", "str", "tuple", "mixed", "int", "str", "tuple", "mixed", "dunder"])
    alpha = list(ALPHABETS[labels])
    n = rng.randint(3, len(alpha))
    alpha = rng.sample(alpha, n)
    kind = BOOL if prop == "C02" else SPIN if prop == "C03" else rng.choice([BOOL, BOOL, SPIN])
    cfg = {
        "kind": kind, "labels": labels, "alphabet": [enc_label(l) for l in alpha],
        "obj_vars": rng.choice([2, 3, 4]), "obj_deg": rng.choice([1, 2, 2, 3]), "obj_coefs": rng.choice([[-1, 1], [-2, -1, 1, 2], [-3, -1, 1, 2], [-1.5, -0.5, 0.5, 1, 2.5]]),
        "cons_vars": rng.choice([2, 3, 4]), "cons_deg": rng.choice([1, 1, 2, 3]), "cons_coefs": rng.choice([[-1, 1], [-2, -1, 1, 2], [-3, -2, -1, 1, 2, 3]]),
        "lams": rng.choice([[1], [0.5, 1, 1.5, 2, 3, 4], [2, 4], [0.5]]),
        "p_special": rng.choice([0.0, 0.3, 0.6]), "p_near_miss": rng.choice([0.0, 0.4, 0.7]), "p_skewed": rng.choice([0.0, 0.2, 0.5]), "p_model_arg": rng.choice([0.0, 0.3, 0.6]),
        "max_cons": rng.choice([1, 2, 3, 5]),
        "w_logic": 0, "w_obj": rng.choice([0, 0.5, 1.5]), "w_hist": rng.choice([0, 0.5, 1.5]), "w_obs": rng.choice([0, 0.5, 1.5]), "w_remap": rng.choice([0, 0, 0.5, 1.5]), "forms_first": rng.random() < 0.5, "p_bigcoef": rng.choice([0.0, 0.0, 0.15, 0.4]), "p_wide": rng.choice([0.0, 0.0, 0.0, 0.0, 0.012]), "big_offset": rng.choice([0, 0, 0, 0, 0, 0, 2 ** 36, -(2 ** 36), 2 ** 34 + 1]),
        "n_ops": rng.choice([2, 4, 7, 12]),
        "half_bounds": tier == "thorough" or rng.random() < 0.3,
    }
    if prop in ("C02", "C03") and rng.random() < 0.15:
        # "deep" histories: many ancilla-bearing constraints on one model (dozens of ancillas).  Truth-table clauses are skipped
        # beyond their size caps; ancilla freshness, footprint, counter coverage and conservation are still checked symbolically.
        cfg["deep"] = True
        cfg["max_cons"] = rng.choice([6, 9, 12])
        cfg["n_ops"] = rng.choice([10, 16, 24])
        cfg["p_skewed"] = 0.6
        cfg["w_obj"] = 0
    if prop == "C08":
        cfg["max_cons"] = rng.choice([1, 2, 3])
        cfg["w_logic"] = rng.choice([0, 2, 4])
        cfg["obj_vars"] = rng.choice([2, 3])
        cfg["cons_vars"] = rng.choice([2, 3])
        cfg["cons_deg"] = rng.choice([1, 1, 2])
        cfg["n_ops"] = rng.choice([2, 3, 5, 8])
    return cfg


def shrink_op(op):
    out = []
    for key in ("terms", "P"):
        if key in op and len(op[key]) > 1:
            for i in range(len(op[key])):
                cand = dict(op, **{key: op[key][:i] + op[key][i + 1:]})
                if key == "P" and op.get("bounds"):
                    cand["bounds"] = None        # recorded bounds are enclosures of the ORIGINAL polynomial only
                out.append(cand)
    if op.get("op") == "cons":
        if op.get("bounds"):
            out.append(dict(op, bounds=None))
        if op.get("lam") not in (1,):
            out.append(dict(op, lam=1))
        for i, (k, v) in enumerate(op["P"]):
            if v not in (1, -1):
                out.append(dict(op, P=op["P"][:i] + [[k, 1 if v > 0 else -1]] + op["P"][i + 1:], bounds=None))
    return out
