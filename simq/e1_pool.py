"""E1 — object-pool machine (properties C05, C14, C19).

A pool of live models / dicts / numbers, each with an exact reference
(RefPoly).  Every operation names a write-set; after every operation every
object outside the write-set must be unchanged (deep snapshot), every object
inside it must equal its reference, and the bookkeeping invariants must hold.
"""
import math
import warnings
from fractions import Fraction

from .common import (BaseWorld, Violation, HarnessError, choose_weighted, enc_label, dec_label, enc_key, dec_key, sort_key)
from .refpoly import RefPoly, BOOL, SPIN, squash, frac
from .refcons import RefConstraints, check_penalty, holds, RELS

BOOL_TYPES = ["QUBO", "PUBO", "PCBO", "QUBOMatrix", "PUBOMatrix"]
SPIN_TYPES = ["QUSO", "PUSO", "PCSO", "QUSOMatrix", "PUSOMatrix"]
MATRIX = {"QUSOMatrix", "PUSOMatrix", "QUBOMatrix", "PUBOMatrix"}
DEG2 = {"QUSO", "QUBO", "QUSOMatrix", "QUBOMatrix"}
LABELLED = {"QUBO", "PUBO", "PCBO", "QUSO", "PUSO", "PCSO"}
CONSTRAINED = {"PCBO", "PCSO"}
MAX_LIVE = 6
MAX_DEG = 4
MAX_TERMS = 48

ORACLES = {
    "C05": {"value_tracking", "not_canonical", "wrong_result_type", "operand_changed", "unexpected_exception", "missing_keyerror",
            "value_function_mismatch", "equal_models_compare_unequal"},
    "C14": {"variables_not_upper_bound", "degree_not_upper_bound", "nbv_not_upper_bound", "mapping_not_bijection", "refresh_changed_function",
            "refresh_not_exact", "enumerated_label_discipline", "enumerated_form_wrong_minimum", "ancilla_name_reused",
            "penalty_touches_foreign_variables", "unexpected_exception", "reduced_form_raises"},
    "C19": {"operand_changed", "argument_mutated", "handout_aliases_model", "copy_not_equal", "copy_aliases_original", "info_roundtrip_mismatch",
            "unexpected_exception", "info_not_equal"},
}


def okey(x):
    """qubovert's documented ordering of labels inside a key: by type, then value."""
    return (str(type(x)), x)


def homogeneous(key):
    return len({type(x) for x in key}) <= 1


class Slot:
    __slots__ = ("obj", "t", "shadow", "cons", "issued", "snap", "born", "tainted", "foreign")

    def __init__(self, obj, t, shadow, cons=None, issued=None):
        self.obj, self.t, self.shadow = obj, t, shadow
        self.cons = cons
        self.issued = set(issued or ())
        self.snap = None
        self.foreign = False      # holds ancilla-named variables that did not come from its own constraint calls
        self.tainted = False      # bookkeeping known-inexact through documented staleness (still checked as upper bounds)

    @property
    def is_model(self):
        return self.t not in ("dict", "num")


class World(BaseWorld):
    def __init__(self, prop, cfg):
        super().__init__(prop, cfg)
        import qubovert as qv
        from qubovert import utils as qu
        self.qv, self.qu = qv, qu
        self.T = {"QUSO": qv.QUSO, "PUSO": qv.PUSO, "PCSO": qv.PCSO, "QUBO": qv.QUBO, "PUBO": qv.PUBO, "PCBO": qv.PCBO,
                  "QUSOMatrix": qu.QUSOMatrix, "PUSOMatrix": qu.PUSOMatrix, "QUBOMatrix": qu.QUBOMatrix, "PUBOMatrix": qu.PUBOMatrix}
        self.kind = cfg["kind"]
        self.types = [t for t in (BOOL_TYPES if self.kind == BOOL else SPIN_TYPES) if cfg["labels"] == "int" or t not in MATRIX]
        if cfg.get("types"):
            self.types = [t for t in self.types if t in cfg["types"]] or self.types
        self.labels = [dec_label(l) for l in cfg["alphabet"]]
        self.pool = []
        self.active = ORACLES[prop]
        self.nops = 0
        self.bigint = bool(cfg.get("bigint"))
        BIGINT_MODE[0] = self.bigint

    def fail(self, oracle, detail):
        if oracle in self.active:
            raise Violation(oracle, detail)
        self.probe("other_property_oracle:" + oracle)

    # ================================================================ snapshots
    def snap(self, s):
        o = s.obj
        if s.t == "num":
            return ("num", o)
        if s.t == "dict":
            return ("dict", frozenset((k, v) for k, v in o.items()))
        out = [type(o).__name__, frozenset(dict.items(o)), getattr(o, "name", None)]
        out.append(frozenset(o._variables))
        out.append(o._degree)
        out.append(o._num_binary_variables)
        if s.t in LABELLED:
            out.append(frozenset(o._mapping.items()))
            out.append(frozenset(o._reverse_mapping.items()))
        if s.t in CONSTRAINED:
            out.append(o._ancilla)
            try:
                out.append(tuple(sorted((k, tuple(frozenset(dict.items(c)) for c in v)) for k, v in o._constraints.items())))
            except Exception as e:
                # internals corrupted (e.g. through an aliased hand-out that the simulator mutated): still a snapshot, and a different one
                out.append(("corrupt-constraints", repr(o._constraints)[:300]))
        return tuple(out)

    def resnap(self):
        for s in self.pool:
            s.snap = self.snap(s)

    def check_untouched(self, write, where):
        """Every object outside the write-set has an unchanged deep snapshot."""
        for i, s in enumerate(self.pool):
            if i in write or s.snap is None:
                continue
            now = self.snap(s)
            if now != s.snap:
                oracle = "operand_changed"
                self.fail(oracle, "%s: slot %d (%s) was not in the write-set but changed: %s -> %s" % (where, i, s.t, brief(s.snap), brief(now)))
                s.snap = now

    # ================================================================ oracles on one object
    def stored_poly(self, s):
        p = RefPoly(self.kind)
        for k, v in (s.obj.items() if s.t == "dict" else dict.items(s.obj)):
            try:
                p.add_term(tuple(k), v)
            except (OverflowError, ValueError, TypeError) as e:
                # inf / nan / non-numeric coefficient: the generated numbers are all small and exact, so this is the library's doing
                raise Violation("value_tracking" if "value_tracking" in self.active else "unexpected_exception",
                                "%s holds a non-finite or non-numeric coefficient %r under %r (%s)" % (s.t, v, k, e))
        return p

    def check_tracking(self, s, where):
        """C05: the written object equals its reference and is stored canonically."""
        if s.t == "num":
            if frac(s.obj) != s.shadow:
                self.fail("value_tracking", "%s: number %r != %s" % (where, s.obj, s.shadow))
            return
        got = self.stored_poly(s)
        if got != s.shadow:
            self.fail("value_tracking", "%s: %s holds %r but the reference polynomial is %r" % (where, s.t, got, s.shadow))
            return
        if s.t == "dict":
            return
        seen = set()
        for k, v in dict.items(s.obj):
            if not isinstance(k, tuple):
                self.fail("not_canonical", "%s: key %r is not a tuple" % (where, k))
                continue
            if v == 0:
                self.fail("not_canonical", "%s: zero coefficient stored under %r" % (where, k))
            if len(set(k)) != len(k):
                self.fail("not_canonical", "%s: key %r repeats a label" % (where, k))
            fs = frozenset(k)
            if fs in seen:
                self.fail("not_canonical", "%s: two keys with the same labels %r" % (where, k))
            seen.add(fs)
            if homogeneous(k) and all(isinstance(x, (int, str)) for x in k) and tuple(sorted(k)) != k:
                self.fail("not_canonical", "%s: key %r is not sorted" % (where, k))
        # models denoting the same function compare equal (building the twin touches the class's key normaliser, so in
        # sparse-observation runs it is only done at observed ops)
        if not getattr(self, "observing", True):
            return
        try:
            canon = {tuple(sorted(k, key=okey)): float(v) if v.denominator != 1 else int(v) for k, v in s.shadow.t.items()}
            twin = self.T[s.t](canon)
            if not (twin == s.obj and dict(twin) == dict(s.obj)):
                self.fail("equal_models_compare_unequal", "%s: %r != model built from its canonical terms %r" % (where, dict(s.obj), canon))
        except Violation:
            raise
        except Exception as e:
            self.fail("unexpected_exception", "%s: rebuilding from canonical terms: %s: %s" % (where, type(e).__name__, e))

    def true_degree(self, p):
        return max((len(k) for k in p.t), default=-math.inf)

    def check_book(self, s, where, exact=False, force=False):
        """C14 bookkeeping invariants."""
        if not s.is_model:
            return
        if not getattr(self, "observing", True) and not exact and not force:
            # reading variables / degree / mapping is itself an event (it could resynchronise a lazily maintained cache):
            # in sparse-observation runs the simulator only looks after the ops recorded with obs=true
            return
        o = s.obj
        p = self.stored_poly(s)
        tv = p.variables()
        try:
            variables, degree, nbv = o.variables, o.degree, o.num_binary_variables
        except Exception as e:
            self.fail("unexpected_exception", "%s: reading bookkeeping: %s: %s" % (where, type(e).__name__, e))
            return
        td = self.true_degree(p)
        if not tv <= set(variables):
            self.fail("variables_not_upper_bound", "%s: true variables %r not within reported %r" % (where, sorted(tv, key=sort_key), sorted(variables, key=sort_key)))
        if td > degree:
            self.fail("degree_not_upper_bound", "%s: true degree %s > reported %s" % (where, td, degree))
        if len(tv) > nbv:
            self.fail("nbv_not_upper_bound", "%s: %d true variables > num_binary_variables %d" % (where, len(tv), nbv))
        if s.t in LABELLED:
            m, r = o.mapping, o.reverse_mapping
            ok = (set(m.keys()) == set(variables) and sorted(m.values()) == list(range(nbv)) and len(r) == len(m)
                  and all(r.get(v) == k for k, v in m.items()))
            if not ok:
                self.fail("mapping_not_bijection", "%s: mapping %r / reverse %r is not a bijection between the reported variables %r and range(%d)" %
                          (where, m, r, sorted(variables, key=sort_key), nbv))
        if exact:
            if set(variables) != tv or nbv != len(tv) or not (degree == td or (td <= 0 and degree in (0, -math.inf))):
                self.fail("refresh_not_exact", "%s: after refresh variables=%r degree=%r nbv=%r but true variables=%r degree=%r" %
                          (where, sorted(variables, key=sort_key), degree, nbv, sorted(tv, key=sort_key), td))

    def check_written(self, idx, where):
        s = self.pool[idx]
        self.check_tracking(s, where)
        self.check_book(s, where)

    def check_all_book(self, where):
        for s in self.pool:
            self.check_book(s, where)

    # ================================================================ generation helpers
    def gen_key(self, rng, maxlen, messy):
        n = rng.randint(0 if rng.random() < 0.15 else 1, maxlen)
        key = [rng.choice(self.labels) for _ in range(n)] if messy else rng.sample(self.labels, min(n, len(self.labels)))
        if not messy or rng.random() < 0.5:
            try:
                key = sorted(key, key=okey)
            except TypeError:
                pass
        return tuple(key)

    def gen_coef(self, rng, allow_zero=False):
        c = rng.choice(self.cfg["coefs"])
        if allow_zero and rng.random() < self.cfg["p_zero"]:
            return 0
        return c

    def gen_terms(self, rng, t, n=None, messy=None):
        messy = self.cfg["messy"] if messy is None else messy
        maxlen = 2 if t in DEG2 else self.cfg["maxdeg"]
        n = rng.randint(0, 5) if n is None else n
        out = []
        for _ in range(n):
            k = self.gen_key(rng, maxlen + (1 if messy and rng.random() < 0.3 else 0), messy and rng.random() < 0.5)
            out.append([enc_key(k), self.gen_coef(rng, allow_zero=messy)])
        return out

    def pick(self, rng, pred):
        idx = [i for i, s in enumerate(self.pool) if pred(s)]
        return rng.choice(idx) if idx else None

    def gen_assignment(self, rng):
        vals = (0, 1) if self.kind == BOOL else (1, -1)
        return {l: rng.choice(vals) for l in self.labels}

    # ================================================================ op generation
    def gen_op(self, rng):
        op = self.gen_op_inner(rng)
        if op is not None and self.cfg.get("observe") == "sparse":
            op["obs"] = rng.random() < 0.3
        return op

    def finish(self):
        self.observing = True
        self.check_all_book("finish")
        return ["finish"]

    def gen_op_inner(self, rng):
        c = self.cfg
        if self.nops >= c["n_ops"]:
            return None
        models = [i for i, s in enumerate(self.pool) if s.is_model]
        hint, self.hint = getattr(self, "hint", None), None
        if hint is not None and rng.random() < 0.8:
            # follow-up that makes aliasing created by the previous op observable
            kind_, slots, rel = hint
            idx = rng.choice(slots)
            if idx < len(self.pool) and self.pool[idx].t in CONSTRAINED:
                l = rng.choice(self.labels)
                return {"op": "cons", "a": idx, "rel": rel, "P": {"terms": [[enc_key((l,)), 1], [[], rng.choice([-1, 0])]]}, "lam": rng.choice([0, 1]),
                        "log_trick": True, "bounds": "none"}
        if not models or (len(self.pool) < 2 and rng.random() < 0.7):
            return self.gen_new(rng)
        w = c["weights"]
        table = [("new", w["new"]), ("bin", w["arith"]), ("ibin", w["arith"]), ("pow", w["arith"] * 0.4), ("neg", w["arith"] * 0.3),
                 ("div", w["arith"] * 0.3), ("item", w["edit"]), ("update", w["edit"] * 0.3 + w.get("update", 0)), ("clear", w["edit"] * 0.1),
                 ("refresh", w["refresh"]), ("value", w["value"]), ("copy", w["copy"]), ("handout", w["handout"]),
                 ("pure", w["pure"]), ("cons", w["cons"]), ("enum", w["enum"])]
        kind = choose_weighted(rng, table)
        return getattr(self, "gen_" + kind)(rng) or self.gen_new(rng)

    def gen_new(self, rng):
        r = rng.random()
        if r < 0.12:
            if self.bigint:
                return {"op": "num", "v": rng.choice([0, 1, -1, 2, 3, -2, 2**55 + 1, -(3**36)])}
            return {"op": "num", "v": rng.choice([0, 1, -1, 2, 3, -2, 0.5, -0.5, 4])}
        if r < 0.27:
            t = "dict"
            return {"op": "new", "t": t, "terms": self.gen_terms(rng, "PUBO" if rng.random() < 0.6 else "QUBO", messy=self.cfg["messy"])}
        t = rng.choice(self.types)
        if r < 0.4:
            return {"op": "var", "t": t, "label": enc_label(rng.choice(self.labels))}
        return {"op": "new", "t": t, "terms": self.gen_terms(rng, t)}

    def result_degree_ok(self, f, A, B):
        if f != "mul":
            return True
        return self.poly_of(A).degree() + self.poly_of(B).degree() <= MAX_DEG or rng_false()

    def poly_of(self, s):
        return s.shadow if s.t != "num" else RefPoly.const(self.kind, s.shadow)

    def gen_bin(self, rng, inplace=False):
        f = rng.choice(["add", "sub", "mul"])
        if inplace:
            a = self.pick(rng, lambda s: s.is_model)
            if a is None:
                return None
            b = rng.randrange(len(self.pool)) if rng.random() > self.cfg["p_alias"] else a
        else:
            a = rng.randrange(len(self.pool))
            if self.pool[a].is_model:
                b = rng.randrange(len(self.pool)) if rng.random() > self.cfg["p_alias"] else a
            else:
                b = self.pick(rng, lambda s: s.is_model)
                if b is None:
                    return None
        A, B = self.pool[a], self.pool[b]
        if f == "mul":
            d = self.poly_of(A).degree() + self.poly_of(B).degree()
            nterms = len(self.poly_of(A).t) * len(self.poly_of(B).t)
            deg2 = any(s.t in DEG2 for s in (A, B) if s.is_model)
            if nterms > 200 or d > MAX_DEG + (2 if deg2 and rng.random() < 0.3 else 0):
                f = rng.choice(["add", "sub"])
        return {"op": "ibin" if inplace else "bin", "f": f, "a": a, "b": b}

    def gen_ibin(self, rng):
        return self.gen_bin(rng, inplace=True)

    def gen_pow(self, rng):
        a = self.pick(rng, lambda s: s.is_model)
        if a is None:
            return None
        A = self.pool[a]
        k = rng.choice([1, 2, 2, 3, 3, 4, 5, 6, 7, 8, 10, 12])
        nv = len(A.shadow.variables())
        if nv > 4 or (A.t in DEG2 and k > 3 and A.shadow.degree() > 1) or (A.t not in DEG2 and min(A.shadow.degree() * k, nv) > MAX_DEG + 1):
            k = rng.choice([1, 2])
        if k > 3:
            self_probe = True
        return {"op": "pow", "a": a, "k": k, "inplace": rng.random() < 0.4}

    def gen_neg(self, rng):
        a = self.pick(rng, lambda s: s.is_model)
        return None if a is None else {"op": rng.choice(["neg", "pos"]), "a": a}

    def gen_div(self, rng):
        if self.bigint:
            return None        # true division yields floats
        a = self.pick(rng, lambda s: s.is_model)
        return None if a is None else {"op": "div", "a": a, "c": rng.choice([2, -2, 4, 0.5, -1, 1, 8, 3, 7, 49, -3, 10]), "inplace": rng.random() < 0.4}

    def gen_item(self, rng):
        a = self.pick(rng, lambda s: s.is_model)
        if a is None:
            return None
        A = self.pool[a]
        f = rng.choice(["set", "iadd", "isub", "imul", "set", "iadd"])
        keys = list(dict.keys(A.obj))
        if keys and rng.random() < 0.55:
            key = rng.choice(keys)
            v = self.gen_coef(rng, allow_zero=True)
            if f == "isub" and rng.random() < 0.4:
                v = dict.get(A.obj, key)        # exact cancellation
            if f == "iadd" and rng.random() < 0.3:
                v = -dict.get(A.obj, key)
        else:
            maxlen = 2 if A.t in DEG2 else self.cfg["maxdeg"]
            key = self.gen_key(rng, maxlen + (1 if rng.random() < 0.1 else 0), rng.random() < self.cfg["p_messy_key"])
            v = self.gen_coef(rng, allow_zero=True)
        if isinstance(v, Fraction):
            v = float(v)
        op = {"op": "item", "f": f, "a": a, "key": enc_key(key), "v": v}
        if rng.random() < 0.5:
            op["retry"] = True
        return op

    def gen_update(self, rng):
        a = self.pick(rng, lambda s: s.is_model)
        if a is None:
            return None
        if rng.random() < 0.5:
            if self.pool[a].t in CONSTRAINED and rng.random() < 0.7:
                b = self.pick(rng, lambda s: s.t in CONSTRAINED and s.cons is not None and s.cons.items)
            else:
                b = self.pick(rng, lambda s: s.t != "num")
            if b is not None and b != a:
                return {"op": "update", "a": a, "src": b}
        return {"op": "update", "a": a, "terms": self.gen_terms(rng, self.pool[a].t, n=rng.randint(0, 3))}

    def gen_clear(self, rng):
        a = self.pick(rng, lambda s: s.is_model)
        return None if a is None else {"op": "clear", "a": a}

    def gen_refresh(self, rng):
        a = self.pick(rng, lambda s: s.is_model)
        return None if a is None else {"op": "refresh", "a": a}

    def gen_value(self, rng):
        a = self.pick(rng, lambda s: s.t != "num")
        if a is None:
            return None
        x = self.gen_assignment(rng)
        return {"op": "value", "a": a, "x": [[enc_label(k), v] for k, v in x.items()], "seq": rng.random() < 0.4}

    def gen_copy(self, rng):
        a = self.pick(rng, lambda s: s.is_model)
        if a is None:
            return None
        how = rng.choice(["copy", "ctor", "cross", "info", "info"])
        op = {"op": "copy", "a": a, "how": how}
        if how == "cross":
            op["t"] = rng.choice(self.types)
        return op

    def gen_handout(self, rng):
        a = self.pick(rng, lambda s: s.is_model)
        if a is None:
            return None
        A = self.pool[a]
        whats = ["variables", "dictcopy", "info"]
        if A.t in LABELLED:
            whats += ["mapping", "reverse_mapping", "mapping"]
        if A.t in CONSTRAINED:
            whats += ["constraints", "constraints", "info"]
        if A.t in ("QUBOMatrix", "QUBO"):
            whats.append("Q")
        if A.t in ("QUSOMatrix", "QUSO"):
            whats += ["h", "J"]
        return {"op": "handout", "a": a, "what": rng.choice(whats), "mut": rng.choice(["insert", "delete", "overwrite", "clear", "deep"]),
                "r": rng.randrange(1 << 16)}

    PURE_BOOL = ["value_fn", "to_spin_fn", "to_qubo", "to_quso", "to_pubo", "to_puso", "to_enumerated", "solve_fn", "solve_method", "anneal",
                 "extrema", "temperature_range", "subgraph", "subvalue", "normalize_fn", "subs", "round", "pretty_str", "is_valid", "remove_ancilla",
                 "convert_solution", "as_constraint_operand", "as_arith_operand", "sat_operand", "logic_operand", "as_constraint_operand"]

    def gen_pure(self, rng):
        a = self.pick(rng, lambda s: s.t != "num")
        if a is None:
            return None
        op = {"op": "pure", "a": a, "call": rng.choice(self.PURE_BOOL), "r": rng.randrange(1 << 16)}
        return op

    def gen_cons(self, rng):
        a = self.pick(rng, lambda s: s.t in CONSTRAINED)
        if a is None:
            if not any(t in CONSTRAINED for t in self.types):
                return None
            t = "PCBO" if self.kind == BOOL else "PCSO"
            return {"op": "new", "t": t, "terms": self.gen_terms(rng, t)}
        rel = rng.choice(RELS)
        src = None
        if rng.random() < 0.4:
            b = self.pick(rng, lambda s: s.t != "num" and s.shadow.is_integer() and len(s.shadow.variables()) <= 3 and s.shadow.degree() <= 3 and maxabs(s.shadow) <= (1 << 16)
                          and not any(str(v).startswith("__a") for v in s.shadow.variables()))
            if b is not None:
                src = {"slot": b}
        if src is None:
            n = rng.randint(1, 3)
            terms = []
            for _ in range(n):
                k = self.gen_key(rng, 2, False)
                terms.append([enc_key(k), rng.choice([-2, -1, 1, 1, 2, 3])])
            if rng.random() < 0.5:
                terms.append([[], rng.choice([-2, -1, 1, 2])])
            src = {"terms": terms}
        return {"op": "cons", "a": a, "rel": rel, "P": src, "lam": rng.choice([0, 0.5, 1, 2, 3]), "log_trick": rng.random() < 0.5,
                "bounds": rng.choice(["none", "none", "lo", "hi", "both"])}

    def gen_enum(self, rng):
        a = self.pick(rng, lambda s: s.t in LABELLED)
        if a is None:
            return None
        A = self.pool[a]
        forms = ["to_qubo", "to_quso", "to_pubo", "to_puso", "to_enumerated"]
        op = {"op": "enum", "a": a, "form": rng.choice(forms)}
        if op["form"] in ("to_pubo", "to_puso") and A.t not in DEG2 and rng.random() < 0.5:
            op["deg"] = rng.choice([2, 3])
        if A.t not in DEG2 and op["form"] != "to_enumerated" and rng.random() < 0.3:
            # the rarely passed optional arguments of the reduction: an explicit penalty (constant or callable) and pair hints
            op["lam"] = rng.choice(["big_const", "callable"])
            if len(self.labels) >= 2 and rng.random() < 0.6:
                op["pairs"] = [[enc_label(x) for x in rng.sample(self.labels, 2)] for _ in range(rng.randint(1, 2))]
        return op

    # ================================================================ execution
    def add_slot(self, slot):
        if len(self.pool) >= MAX_LIVE:
            self.pool.pop(0)
        self.pool.append(slot)
        slot.snap = self.snap(slot)
        return len(self.pool) - 1

    def slot_index(self, op, key="a"):
        if not self.pool:
            raise HarnessError("empty pool")
        return op.get(key, 0) % len(self.pool)

    def apply(self, op):
        self.nops += 1
        self.steps += 1
        kind = op["op"]
        fn = getattr(self, "do_" + kind, None)
        if fn is None:
            raise HarnessError("unknown op " + kind)
        if kind not in ("new", "num", "var") and not self.pool:
            return [kind, "skipped-empty-pool"]
        self.observing = op.get("obs", True)
        if not self.observing:
            self.probe("unobserved_ops")
        with warnings.catch_warnings(record=True) as wl:
            warnings.simplefilter("always")
            self.wlist = wl
            ev = fn(op)
        self.check_all_book(kind)
        # keep the world small (harness action): oversized objects leave the pool
        for i in range(len(self.pool) - 1, -1, -1):
            sl = self.pool[i]
            if sl.t != "num" and (len(sl.shadow.t) > MAX_TERMS or len(sl.shadow.variables()) > 9):
                self.pool.pop(i)
                self.probe("oversized_object_dropped")
        self.resnap()
        return [kind, ev, [(s.t, len(s.shadow.t) if s.t != "num" else 0) for s in self.pool]]

    # ---------------------------------------------------------------- construction
    def raw_big(self, t, keys):
        """Does any raw key exceed two distinct (boolean) / odd-multiplicity (spin) labels?"""
        return any(len(squash(self.kind, k)) > 2 for k in keys)

    def do_num(self, op):
        v = op["v"]
        self.add_slot(Slot(v, "num", frac(v)))
        return "num"

    def do_new(self, op):
        t = op["t"]
        terms = [(dec_key(k), v) for k, v in op["terms"]]
        shadow = RefPoly(self.kind)
        if t == "dict":
            d = {}
            for k, v in terms:
                d[k] = v           # later duplicates overwrite: a dict literal
            for k, v in d.items():
                shadow.add_term(k, v)
            self.add_slot(Slot(d, "dict", shadow))
            return "dict"
        for k, v in terms:
            shadow.add_term(k, v)
        d = {}
        pairs = []
        for k, v in terms:
            pairs.append((k, v))
        big = t in DEG2 and self.raw_big(t, [k for k, _ in pairs])
        try:
            obj = self.T[t](pairs)      # iterable of pairs: duplicates accumulate
        except KeyError as e:
            if big:
                self.probe("keyerror_on_construct")
                return "keyerror"
            self.fail("unexpected_exception", "constructing %s from %r: KeyError %s" % (t, pairs, e))
            return "exc"
        except Exception as e:
            self.fail("unexpected_exception", "constructing %s from %r: %s: %s" % (t, pairs, type(e).__name__, e))
            return "exc"
        if t in DEG2 and shadow.degree() > 2:
            self.fail("missing_keyerror", "%s accepted terms of degree %d: %r" % (t, shadow.degree(), pairs))
            return "bad"
        s = Slot(obj, t, shadow, RefConstraints() if t in CONSTRAINED else None)
        i = self.add_slot(s)
        if any(v == 0 for _, v in pairs):
            self.probe("zero_coefficient_in_constructor")
        self.check_written(i, "new %s" % t)
        return t

    def do_var(self, op):
        t, l = op["t"], dec_label(op["label"])
        try:
            if t == "PCBO" and self.nops % 2:
                obj = self.qv.boolean_var(l)
            elif t == "PCSO" and self.nops % 2:
                obj = self.qv.spin_var(l)
            else:
                obj = self.T[t].create_var(l)
        except Exception as e:
            self.fail("unexpected_exception", "create_var(%r) on %s: %s: %s" % (l, t, type(e).__name__, e))
            return "exc"
        s = Slot(obj, t, RefPoly.var(self.kind, l), RefConstraints() if t in CONSTRAINED else None)
        i = self.add_slot(s)
        self.check_written(i, "var")
        return "var"

    # ---------------------------------------------------------------- arithmetic
    def operand_keys(self, s):
        if s.t == "num":
            return [()]
        if s.t == "dict":
            return list(s.obj.keys())
        return list(dict.keys(s.obj))

    def keyerror_status(self, f, A, B, result):
        """(required, permitted) for a binary operator."""
        models = [s for s in (A, B) if s.is_model]
        any2 = any(s.t in DEG2 for s in models)
        all2 = all(s.t in DEG2 for s in models)
        ka, kb = self.operand_keys(A), self.operand_keys(B)
        if any(s.t in MATRIX for s in models) and any((not isinstance(l, int)) or isinstance(l, bool) or l < 0 for k in ka + kb for l in k):
            # Matrix types accept only non-negative integer labels (e.g. not the '__a<k>' ancillas of a PCBO operand)
            return False, True
        if not any2:
            return False, False
        touched = self.raw_big(None, ka) or self.raw_big(None, kb)
        if f == "mul" and not touched:
            touched = any(len(squash(self.kind, tuple(x) + tuple(y))) > 2 for x in ka for y in kb)
        required = all2 and result.degree() > 2
        return required, (result.degree() > 2 or touched)

    def apply_bin_ref(self, f, pa, pb):
        return {"add": pa + pb, "sub": pa - pb, "mul": pa * pb}[f]

    def py_bin(self, f, x, y):
        if f == "add":
            return x + y
        if f == "sub":
            return x - y
        return x * y

    def do_bin(self, op):
        a, b = self.slot_index(op, "a"), self.slot_index(op, "b")
        A, B = self.pool[a], self.pool[b]
        if not (A.is_model or B.is_model):
            return "skipped"
        f = op["f"]
        if f == "mul" and len(self.poly_of(A).t) * len(self.poly_of(B).t) > 1500:
            return "skipped-large"
        want = self.apply_bin_ref(f, self.poly_of(A), self.poly_of(B))
        if not exact_ok(self.poly_of(A), self.poly_of(B), product=(f == "mul")) or not exact_ok(want):
            return "skipped-inexact"
        required, permitted = self.keyerror_status(f, A, B, want)
        if a == b:
            self.probe("self_aliased_operator")
            self.interesting = True
        if not A.is_model:
            self.probe("reflected_operator")
        where = "%s %s %s" % (A.t, f, B.t)
        try:
            res = self.py_bin(f, A.obj, B.obj)
        except KeyError as e:
            self.check_untouched(set(), where)
            if permitted:
                self.probe("keyerror_degree2")
                return "keyerror"
            self.fail("unexpected_exception", "%s: KeyError %s although the result has degree %d" % (where, e, want.degree()))
            return "exc"
        except Exception as e:
            self.check_untouched(set(), where)
            self.fail("unexpected_exception", "%s: %s: %s" % (where, type(e).__name__, e))
            return "exc"
        self.check_untouched(set(), where)
        if res is A.obj or res is B.obj:
            self.fail("operand_changed", "%s returned one of its operands itself instead of a new object" % where)
            return "alias"
        tn = type(res).__name__
        allowed = {s.t for s in (A, B) if s.is_model}
        if tn not in allowed:
            self.fail("wrong_result_type", "%s returned %s, expected the type of a model operand %r" % (where, tn, sorted(allowed)))
            return "badtype"
        if required or (tn in DEG2 and want.degree() > 2):
            self.fail("missing_keyerror", "%s: result of degree %d stored in %s" % (where, want.degree(), tn))
            return "bad"
        cons = None
        issued, foreign = self.lineage(tn, A, B, want)
        if tn in CONSTRAINED:
            # constraints of the left/model operand are carried by copy(); not part of C05
            cons = self.read_constraints(res)
        s = Slot(res, tn, want, cons, issued)
        s.foreign = foreign
        i = self.add_slot(s)
        self.check_written(i, where)
        return tn

    def do_ibin(self, op):
        a, b = self.slot_index(op, "a"), self.slot_index(op, "b")
        A, B = self.pool[a], self.pool[b]
        if not A.is_model:
            return "skipped"
        f = op["f"]
        if f == "mul" and len(self.poly_of(A).t) * len(self.poly_of(B).t) > 1500:
            return "skipped-large"
        want = self.apply_bin_ref(f, self.poly_of(A), self.poly_of(B))
        if not exact_ok(self.poly_of(A), self.poly_of(B), product=(f == "mul")) or not exact_ok(want):
            return "skipped-inexact"
        required, permitted = self.keyerror_status(f, A, B, want)
        if A.t in DEG2:
            required = want.degree() > 2
        elif A.t in MATRIX:
            required = False       # `permitted` may still be set: non-integer labels arriving in a Matrix target
        else:
            required = permitted = False
        where = "%s %s= %s%s" % (A.t, f, B.t, " (same object)" if a == b else "")
        if a == b:
            self.probe("self_aliased_inplace")
            self.interesting = True
        obj = A.obj
        try:
            if f == "add":
                obj += B.obj
            elif f == "sub":
                obj -= B.obj
            else:
                obj *= B.obj
        except KeyError as e:
            self.check_untouched({a}, where)
            if permitted or required:
                self.probe("keyerror_mid_inplace")
                self.interesting = True
                self.retire(a)
                return "keyerror"
            self.retire(a)
            self.fail("unexpected_exception", "%s: KeyError %s although the result has degree %d" % (where, e, want.degree()))
            return "exc"
        except Exception as e:
            self.check_untouched({a}, where)
            self.retire(a)
            self.fail("unexpected_exception", "%s: %s: %s" % (where, type(e).__name__, e))
            return "exc"
        self.check_untouched({a}, where)
        if obj is not A.obj:
            if type(obj).__name__ != A.t:
                self.fail("wrong_result_type", "%s rebound the target to %s" % (where, type(obj).__name__))
            A.obj = obj
        if required:
            self.fail("missing_keyerror", "%s: result of degree %d stored in %s" % (where, want.degree(), A.t))
            self.retire(a)
            return "bad"
        A.shadow = want
        if A.t in CONSTRAINED:
            if self.anc_vars(want) - A.issued:
                A.foreign = True
            A.cons = self.read_constraints(A.obj)
        self.check_written(a, where)
        return "ok"

    def anc_vars(self, p):
        return {v for v in p.variables() if isinstance(v, str) and v.startswith("__a")}

    def lineage(self, res_t, A, B, result):
        """(issued, foreign) for an arithmetic result of type res_t built from operands A, B."""
        if res_t not in CONSTRAINED:
            return set(), False
        owners = [s for s in (A, B) if s.is_model and s.t in CONSTRAINED]
        if len(owners) == 1 and not owners[0].foreign:
            issued = set(owners[0].issued)
            return issued, bool(self.anc_vars(result) - issued)
        if len(owners) == 2 and owners[0] is owners[1] and not owners[0].foreign:
            return set(owners[0].issued), bool(self.anc_vars(result) - owners[0].issued)
        issued = set()
        for s in owners:
            issued |= s.issued
        return issued, True

    def retire(self, i):
        """After an in-place operator raised, WHAT its target now holds is unspecified (no atomicity is promised), so the
        reference is re-read from the object.  The object itself stays in the pool: whatever it holds, its bookkeeping must
        still bound it (C14) and it must keep behaving like a model -- the caller caught the exception and carries on."""
        s = self.pool[i]
        self.probe("poisoned_by_exception")
        try:
            s.shadow = self.stored_poly(s)
            if s.t in CONSTRAINED:
                s.cons = self.read_constraints(s.obj)
                if self.anc_vars(s.shadow) - s.issued:
                    s.foreign = True
        except Violation:
            self.pool.pop(i)
            raise
        self.fault("carried_on_after_exception_in_inplace_op")
        self.check_book(s, "after a failed in-place operation", force=True)

    def pow_status(self, A, k):
        if A.t not in DEG2:
            return False, False, A.shadow ** k
        acc = A.shadow.copy()
        touched = self.raw_big(None, self.operand_keys(A))
        for _ in range(k - 1):
            if not touched:
                touched = any(len(squash(self.kind, tuple(x) + tuple(y))) > 2 for x in acc.t for y in A.shadow.t)
            acc = acc * A.shadow
        return acc.degree() > 2, (acc.degree() > 2 or touched), acc

    def do_pow(self, op):
        a = self.slot_index(op)
        A = self.pool[a]
        if not A.is_model:
            return "skipped"
        k = op["k"]
        nv = len(A.shadow.variables())
        if min(len(A.shadow.t) ** k, 1 << min(nv, 20)) * len(A.shadow.t) * k > 6000:
            return "skipped-large"
        if k > 3:
            self.probe("exponent_gt_3")
        if not exact_ok(*([A.shadow] * k), product=True):
            return "skipped-inexact"
        required, permitted, want = self.pow_status(A, k)
        if not exact_ok(want):
            return "skipped-inexact"
        where = "%s **%s %d" % (A.t, "=" if op["inplace"] else "", k)
        write = {a} if op["inplace"] else set()
        try:
            if op["inplace"]:
                obj = A.obj
                obj **= k
                res = obj
            else:
                res = A.obj ** k
        except KeyError as e:
            self.check_untouched(write, where)
            if op["inplace"]:
                self.retire(a)
            if permitted:
                self.probe("keyerror_degree2")
                return "keyerror"
            self.fail("unexpected_exception", "%s: KeyError %s" % (where, e))
            return "exc"
        except Exception as e:
            self.check_untouched(write, where)
            if op["inplace"]:
                self.retire(a)
            self.fail("unexpected_exception", "%s: %s: %s" % (where, type(e).__name__, e))
            return "exc"
        self.check_untouched(write, where)
        if required:
            self.fail("missing_keyerror", "%s: result of degree %d" % (where, want.degree()))
            return "bad"
        if type(res).__name__ != A.t:
            self.fail("wrong_result_type", "%s returned %s" % (where, type(res).__name__))
            return "badtype"
        if not op["inplace"] and res is A.obj:
            self.fail("operand_changed", "%s returned its operand itself instead of a new object (later in-place edits of the result would change the operand)" % where)
            return "alias"
        if op["inplace"]:
            A.obj, A.shadow = res, want
            self.check_written(a, where)
        else:
            s = Slot(res, A.t, want, self.read_constraints(res) if A.t in CONSTRAINED else None, A.issued)
            s.foreign = A.foreign or bool(self.anc_vars(want) - A.issued)
            self.check_written(self.add_slot(s), where)
        return "ok"

    def unary(self, op, name, pyf, reff):
        a = self.slot_index(op)
        A = self.pool[a]
        if not A.is_model:
            return "skipped"
        where = "%s %s" % (name, A.t)
        try:
            res = pyf(A.obj)
        except Exception as e:
            self.check_untouched(set(), where)
            self.fail("unexpected_exception", "%s: %s: %s" % (where, type(e).__name__, e))
            return "exc"
        self.check_untouched(set(), where)
        if type(res).__name__ != A.t:
            self.fail("wrong_result_type", "%s returned %s" % (where, type(res).__name__))
            return "badtype"
        if res is A.obj:
            self.fail("operand_changed", "%s returned its operand itself, not a new object" % where)
        s = Slot(res, A.t, reff(A.shadow), self.read_constraints(res) if A.t in CONSTRAINED else None, A.issued)
        s.foreign = A.foreign
        self.check_written(self.add_slot(s), where)
        return "ok"

    def do_neg(self, op):
        return self.unary(op, "neg", lambda o: -o, lambda p: -p)

    def do_pos(self, op):
        return self.unary(op, "pos", lambda o: +o, lambda p: p.copy())

    def do_div(self, op):
        c = op["c"]
        ia = self.slot_index(op)
        scale = lambda p: p.scale(Fraction(1) / frac(c))
        if self.pool[ia].is_model and not exact_ok(scale(self.pool[ia].shadow)):
            fc = frac(c)
            if self.bigint or fc.denominator != 1 or not exact_ok(self.pool[ia].shadow):
                return "skipped-inexact"
            # a divisor whose reciprocal is not a binary fraction (3, 7, 49 ...): every stored coefficient must be the
            # correctly rounded quotient of the exact coefficient by c (IEEE division of two exact doubles), and the
            # reference continues from those doubles
            def scale(p, fc=fc):
                q = RefPoly(p.kind)
                for k, v in p.t.items():
                    q.add_term(k, Fraction(float(v / fc)))
                return q
            self.probe("division_by_non_dyadic_scalar")
        if not op.get("inplace"):
            return self.unary(op, "div %r" % c, lambda o: o / c, scale)
        a = self.slot_index(op)
        A = self.pool[a]
        if not A.is_model:
            return "skipped"
        where = "%s /= %r" % (A.t, c)
        try:
            obj = A.obj
            obj /= c
        except Exception as e:
            self.check_untouched({a}, where)
            self.retire(a)
            self.fail("unexpected_exception", "%s: %s: %s" % (where, type(e).__name__, e))
            return "exc"
        self.check_untouched({a}, where)
        A.obj = obj
        A.shadow = scale(A.shadow)
        self.check_written(a, where)
        return "ok"

    # ---------------------------------------------------------------- item edits
    def do_item(self, op):
        a = self.slot_index(op)
        A = self.pool[a]
        if not A.is_model:
            return "skipped"
        key, v, f = dec_key(op["key"]), op["v"], op["f"]
        sk = squash(self.kind, key)
        where = "%s[%r] %s %r" % (A.t, key, {"set": "=", "iadd": "+=", "isub": "-=", "imul": "*="}[f], v)
        cur = A.shadow.t.get(sk, Fraction(0))
        new = {"set": frac(v), "iadd": cur + frac(v), "isub": cur - frac(v), "imul": cur * frac(v)}[f]
        big = len(sk) > 2 and A.t in DEG2
        if not self.bigint and (abs(new.numerator) >= LIMIT or new.denominator >= LIMIT):
            return "skipped-inexact"
        if A.t in MATRIX and any((not isinstance(x, int)) or x < 0 for x in key):
            return "skipped"
        newlabels = set(key) - set(A.obj._variables)
        if new == 0 and newlabels:
            self.probe("zero_assigned_to_new_label")
            self.interesting = True
        if self.kind == SPIN and len(sk) < len(set(key)):
            self.probe("even_power_spin_key")
            self.interesting = True
        if cur != 0 and new == 0:
            self.probe("cancellation")
            if len(A.shadow.t) == 1:
                self.probe("cancelled_to_empty")
        try:
            if f == "set":
                A.obj[key] = v
            elif f == "iadd":
                A.obj[key] += v
            elif f == "isub":
                A.obj[key] -= v
            else:
                A.obj[key] *= v
        except KeyError as e:
            if big and op.get("retry"):
                # the caller simply tries the same statement again: a rejected edit must be rejected again
                self.fault("retry_after_keyerror")
                try:
                    if f == "set":
                        A.obj[key] = v
                    elif f == "iadd":
                        A.obj[key] += v
                    elif f == "isub":
                        A.obj[key] -= v
                    else:
                        A.obj[key] *= v
                    self.fail("missing_keyerror", "%s raised KeyError the first time and was silently accepted when retried" % where)
                    return "bad"
                except KeyError:
                    pass
                except Violation:
                    raise
                except Exception as e2:
                    self.fail("unexpected_exception", "%s (retry): %s: %s" % (where, type(e2).__name__, e2))
            self.check_untouched({a}, where)
            if big:
                self.probe("keyerror_degree2")
                self.check_written(a, where)     # a rejected edit must not change anything
                return "keyerror"
            self.fail("unexpected_exception", "%s: KeyError %s" % (where, e))
            return "exc"
        except Exception as e:
            self.check_untouched({a}, where)
            self.fail("unexpected_exception", "%s: %s: %s" % (where, type(e).__name__, e))
            return "exc"
        self.check_untouched({a}, where)
        if big:
            self.fail("missing_keyerror", "%s accepted a key with %d labels" % (where, len(sk)))
            return "bad"
        A.shadow.set_term(key, new)
        self.check_written(a, where)
        return "ok"

    def do_update(self, op):
        a = self.slot_index(op)
        A = self.pool[a]
        if not A.is_model:
            return "skipped"
        if "src" in op:
            b = op["src"] % len(self.pool)
            B = self.pool[b]
            if B.t == "num" or b == a:
                return "skipped"
            d = B.obj
            items = list(B.obj.items()) if B.t == "dict" else list(dict.items(B.obj))
            if A.t in MATRIX and any((not isinstance(l, int)) or l < 0 for k, _ in items for l in k):
                return "skipped"
            self.probe("update_with_pool_object")
            self.interesting = True
        else:
            B = None
            terms = [(dec_key(k), v) for k, v in op["terms"]]
            d = {}
            for k, v in terms:
                d[k] = v
            items = list(d.items())
        if A.t in DEG2 and self.raw_big(None, [k for k, _ in items]):
            return "skipped"
        where = "%s.update(%s)" % (A.t, "slot %s" % B.t if B is not None else repr(d))
        try:
            A.obj.update(d)
        except Exception as e:
            self.check_untouched({a}, where)
            self.retire(a)
            self.fail("unexpected_exception", "%s: %s: %s" % (where, type(e).__name__, e))
            return "exc"
        self.check_untouched({a}, where)
        # update assigns: later occurrences of the same (squashed) monomial overwrite earlier ones
        for k, v in items:
            A.shadow.set_term(k, v)
        if A.t in CONSTRAINED:
            A.cons = self.read_constraints(A.obj)
            if B is not None and B.is_model and (self.anc_vars(A.shadow) - A.issued):
                A.foreign = True
            if B is not None and B.t in CONSTRAINED and B.cons.items:
                self.hint = ("cons", [a, op["src"] % len(self.pool)], B.cons.items[-1][0])
                self.probe("update_merging_constraints")
        self.check_written(a, where)
        return "ok"

    def do_clear(self, op):
        a = self.slot_index(op)
        A = self.pool[a]
        if not A.is_model:
            return "skipped"
        try:
            A.obj.clear()
        except Exception as e:
            self.fail("unexpected_exception", "clear: %s: %s" % (type(e).__name__, e))
            return "exc"
        self.check_untouched({a}, "clear")
        A.shadow = RefPoly(self.kind)
        if A.t in CONSTRAINED:
            A.cons = self.read_constraints(A.obj)
            A.issued, A.foreign = set(), False       # clear() documents a full reset of the cached values
        self.check_written(a, "clear")
        self.check_book(A, "clear", exact=True)
        return "ok"

    def do_refresh(self, op):
        a = self.slot_index(op)
        A = self.pool[a]
        if not A.is_model:
            return "skipped"
        before = self.stored_poly(A)
        stale = set(A.obj._variables) != before.variables()
        if stale:
            self.probe("refresh_of_stale_model")
            self.interesting = True
        cons_before = self.read_constraints(A.obj).canonical() if A.t in CONSTRAINED else None
        try:
            A.obj.refresh()
        except Exception as e:
            self.check_untouched({a}, "refresh")
            self.retire(a)
            self.fail("unexpected_exception", "refresh of %s: %s: %s" % (A.t, type(e).__name__, e))
            return "exc"
        self.check_untouched({a}, "refresh")
        after = self.stored_poly(A)
        if after != before:
            self.fail("refresh_changed_function", "refresh changed %r into %r" % (before, after))
        if cons_before is not None and self.read_constraints(A.obj).canonical() != cons_before:
            self.fail("refresh_changed_function", "refresh changed the recorded constraints")
        self.check_written(a, "refresh")
        self.check_book(A, "refresh", exact=True)
        return "ok"

    # ---------------------------------------------------------------- evaluation
    def do_value(self, op):
        a = self.slot_index(op)
        A = self.pool[a]
        if A.t == "num":
            return "skipped"
        x = {dec_label(k): v for k, v in op["x"]}
        keys = self.operand_keys(A)
        dom0 = 0 if self.kind == BOOL else 1
        for l in A.shadow.variables() | {l for k in keys for l in k}:
            x.setdefault(l, dom0)
        want = A.shadow.value({l: x[l] for l in A.shadow.variables()})
        # the value functions add floats: only judged when every partial sum is exactly representable
        dy = dyadic(A.shadow)
        if self.bigint:
            pass
        elif dy is None or sum((abs(v) for v in A.shadow.t.values()), Fraction(0)) * (1 << dy[1]) >= (1 << 52):
            self.probe("value_skipped_inexact_sum")
            return "skipped-inexact"
        fns = self.qu
        calls = []
        maxlen = max((len(k) for k in keys), default=0)
        if self.kind == BOOL:
            calls.append(("pubo_value", lambda sol: fns.pubo_value(sol, A.obj)))
            if maxlen <= 2:
                calls.append(("qubo_value", lambda sol: fns.qubo_value(sol, A.obj)))
        else:
            calls.append(("puso_value", lambda sol: fns.puso_value(sol, A.obj)))
            if maxlen <= 2:
                calls.append(("quso_value", lambda sol: fns.quso_value(sol, A.obj)))
        if A.is_model:
            calls.append((".value", lambda sol: A.obj.value(sol)))
        sols = [("dict", dict(x))]
        vs = A.shadow.variables() | {l for k in keys for l in k}
        if vs and vs != set(x):
            # an assignment of exactly the model's variables (nothing else in the dict), in reversed label order
            sols.append(("minimal dict", {l: x[l] for l in sorted(vs, key=sort_key, reverse=True)}))
            self.probe("minimal_dict_assignment")
        if op.get("seq") and all(isinstance(l, int) and l >= 0 for l in vs):
            n = max(vs, default=-1) + 1
            dom0 = 0 if self.kind == BOOL else 1
            seq = [x.get(i, dom0) for i in range(n)]
            sols += [("list", seq), ("tuple", tuple(seq))]
            self.probe("sequence_assignment")
        for cname, call in calls:
            for sname, sol in sols:
                try:
                    got = call(sol)
                except Exception as e:
                    self.fail("unexpected_exception", "%s(%s assignment) on %s: %s: %s" % (cname, sname, A.t, type(e).__name__, e))
                    continue
                try:
                    ok = frac(got) == want
                except Exception:
                    ok = False
                if not ok:
                    self.fail("value_function_mismatch", "%s(%s assignment %r) on %s %r = %r, direct evaluation gives %s" %
                              (cname, sname, sol, A.t, dict(A.obj) if A.t != "dict" else A.obj, got, want))
        self.check_untouched(set(), "value")
        self.probe("value_calls", len(calls) * len(sols))
        return "ok"

    # ---------------------------------------------------------------- constraints bookkeeping
    def read_constraints(self, obj):
        rc = RefConstraints()
        for rel, lst in obj._constraints.items():
            if not isinstance(lst, list):
                continue
            for c in lst:
                if not isinstance(c, dict):
                    continue
                p = RefPoly(self.kind)
                for k, v in dict.items(c):
                    p.add_term(tuple(k), v)
                rc.add(rel, p)
        return rc

    def do_copy(self, op):
        from . import e1_extra
        return e1_extra.do_copy(self, op)

    def do_handout(self, op):
        from . import e1_extra
        return e1_extra.do_handout(self, op)

    def do_pure(self, op):
        from . import e1_extra
        return e1_extra.do_pure(self, op)

    def do_cons(self, op):
        from . import e1_extra
        return e1_extra.do_cons(self, op)

    def do_enum(self, op):
        from . import e1_extra
        return e1_extra.do_enum(self, op)


def rng_false():
    return False


LIMIT = 1 << 50


def maxabs(p):
    return max((max(abs(v.numerator), v.denominator) for v in p.t.values()), default=1)


def dyadic(p):
    """(M, K): every coefficient is n / 2^k with k <= K and |value| <= M; None if a denominator is not a power of two."""
    M, K = Fraction(0), 0
    for v in p.t.values():
        d = v.denominator
        if d & (d - 1):
            return None
        K = max(K, d.bit_length() - 1)
        M = max(M, abs(v))
    if K > 40:
        # a full-mantissa double (e.g. a correctly rounded quotient such as 0.1): any further float sum with it rounds, and the
        # library may add the raw terms of an operand in an order the squashed reference polynomial does not show
        return None
    return M, K


BIGINT_MODE = [False]


def exact_ok(*polys, product=False):
    """Will qubovert's float arithmetic be exact?  Every intermediate sum of products must fit 52 bits over the common
    power-of-two denominator (a product n1/2^k1 * n2/2^k2 needs |n1 n2| < 2^53, sums of T of them log2 T bits more)."""
    if BIGINT_MODE[0]:
        # integer-only run: Python int arithmetic is exact at any size (bounded only to keep the run fast)
        return all(v.denominator == 1 and abs(v.numerator) < (1 << 600) for p in polys for v in p.t.values())
    ds = [dyadic(p) for p in polys]
    if any(d is None for d in ds):
        return False
    if product:
        m, k = Fraction(1), 0
        for p, (M, K) in zip(polys, ds):
            m *= max(M, 1) * max(len(p.t), 1)
            k += K
        return m * (1 << k) < (1 << 52)
    K = max((K for _, K in ds), default=0)
    M = sum((M for M, _ in ds), Fraction(0))
    return M * (1 << K) < (1 << 52)


def brief(snap):
    s = repr(snap)
    return s if len(s) < 400 else s[:400] + "..."


# ==================================================================== configuration

ALPHABETS = {
    "int": [0, 1, 2, 3, 4],
    "str": ["a", "b", "c", "x0", "y"],
    "tuple": [("v", 0), ("v", 1), ("w", 0), ("a", 2)],
    "mixed": [0, 1, "a", "b", ("v", 0)],
    "negint": [-2, -1, 0, 1, 3],
}


def gen_cfg(rng, prop, tier):
    labels = rng.choice(["int", "int", "str", "tuple", "mixed", "negint"])
    alpha = list(ALPHABETS[labels])
    n = rng.randint(2, len(alpha))
    alpha = alpha[:n] if labels == "int" else rng.sample(alpha, n)
    w = {"new": rng.choice([1, 2]), "arith": rng.choice([0.5, 2, 5]), "edit": rng.choice([0.5, 2, 5]), "refresh": rng.choice([0.2, 1]),
         "value": rng.choice([0.3, 1, 2]), "copy": rng.choice([0.2, 1]), "handout": rng.choice([0, 0.3, 1]), "pure": rng.choice([0, 0.3, 1]),
         "cons": rng.choice([0, 0.3, 1]), "enum": rng.choice([0, 0.3, 1])}
    if prop == "C05":
        w.update(arith=rng.choice([3, 6]), value=rng.choice([1, 2]), handout=rng.choice([0, 0.2]), pure=rng.choice([0, 0.2]),
                 cons=rng.choice([0, 0.2]), enum=0)
    elif prop == "C14":
        w.update(edit=rng.choice([3, 6]), refresh=rng.choice([0.5, 1.5]), enum=rng.choice([1, 2, 3]), cons=rng.choice([0.3, 1, 2]),
                 copy=rng.choice([0.5, 1.5]), value=0.2, handout=rng.choice([0, 0.3, 0.6]), pure=rng.choice([0, 0.2]))
    elif prop == "C19":
        w.update(handout=rng.choice([2, 4]), pure=rng.choice([2, 4]), copy=rng.choice([1, 3]), cons=rng.choice([0.5, 1.5, 3]), value=0.3,
                 arith=rng.choice([0.5, 2]), update=rng.choice([0, 1, 2]))
    cfg = {
        "kind": rng.choice([BOOL, SPIN]),
        "labels": labels, "alphabet": [enc_label(l) for l in alpha],
        "coefs": rng.choice([[-1, 1], [-2, -1, 1, 2], [-3, -2, -1, 1, 2, 3], [-1, 1, 2, 4, 0.5], [1024, -1024, 1, -1, 3]]),
        # "bigint" runs: integer coefficients far beyond 2^53 and no float anywhere, so every result is an exact Python int and any
        # silent conversion to float inside the library (e.g. in a value function) becomes visible
        "bigint": rng.random() < 0.12,
        "p_zero": rng.choice([0.0, 0.1, 0.3]),
        "messy": rng.random() < 0.5, "observe": rng.choice(["every", "every", "sparse"]),
        "p_messy_key": rng.choice([0.0, 0.2, 0.5]),
        "p_alias": rng.choice([0.0, 0.1, 0.3]),
        "maxdeg": rng.choice([2, 3, 3, 4]),
        "n_ops": rng.choice([4, 8, 15, 25] if tier == "quick" else [4, 8, 15, 25, 40, 60]),
        "weights": w,
    }
    if cfg["bigint"]:
        cfg["coefs"] = rng.choice([[3**34, -(3**34), 1, -1], [2**60 + 1, -(2**61) + 3, 5**25, 7], [10**17 + 3, -(10**18) - 7, 2]])
        w["cons"] = 0
        w["enum"] = 0
    if rng.random() < 0.25:
        pool = BOOL_TYPES if cfg["kind"] == BOOL else SPIN_TYPES
        cfg["types"] = rng.sample(pool, rng.randint(1, 2))
    return cfg


def shrink_op(op):
    out = []
    if "terms" in op and op["terms"]:
        for i in range(len(op["terms"])):
            out.append(dict(op, terms=op["terms"][:i] + op["terms"][i + 1:]))
        for i, (k, v) in enumerate(op["terms"]):
            if v not in (1, 0, -1):
                out.append(dict(op, terms=op["terms"][:i] + [[k, 1]] + op["terms"][i + 1:]))
    if op.get("op") == "item" and op.get("v") not in (0, 1):
        out.append(dict(op, v=1))
    if op.get("op") == "pow" and op.get("k", 1) > 2:
        out.append(dict(op, k=2))
    for key in ("a", "b"):
        if op.get(key):
            out.append(dict(op, **{key: 0}))
    if op.get("op") == "cons":
        if op.get("bounds") != "none":
            out.append(dict(op, bounds="none"))
        if op.get("lam") not in (1,):
            out.append(dict(op, lam=1))
    return out
