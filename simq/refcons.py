"""Reference semantics of comparison constraints and the exact penalty oracle
(shared by E1 and E2).  Imports nothing from qubovert."""
from fractions import Fraction

import numpy as np

from .common import Violation, sort_key
from .refpoly import RefPoly

RELS = ("eq", "ne", "lt", "le", "gt", "ge")


def holds(rel, v):
    return {"eq": v == 0, "ne": v != 0, "lt": v < 0, "le": v <= 0, "gt": v > 0, "ge": v >= 0}[rel]


def holds_vec(rel, t):
    return {"eq": t == 0, "ne": t != 0, "lt": t < 0, "le": t <= 0, "gt": t > 0, "ge": t >= 0}[rel]


class RefConstraints:
    """List of (relation, RefPoly); validity = all relations hold."""

    def __init__(self, items=None):
        self.items = list(items or [])

    def add(self, rel, poly):
        self.items.append((rel, poly.copy()))

    def copy(self):
        return RefConstraints([(r, p.copy()) for r, p in self.items])

    def valid(self, x, default):
        for rel, p in self.items:
            full = {l: x.get(l, default) for l in p.variables()}
            if not holds(rel, p.value(full)):
                return False
        return True

    def valid_table(self, order):
        """Boolean vector over all assignments of `order` (must cover every constraint variable)."""
        ok = np.ones(1 << len(order), dtype=bool)
        for rel, p in self.items:
            t, _ = p.table(order)
            ok &= holds_vec(rel, t)
        return ok

    def variables(self):
        s = set()
        for _, p in self.items:
            s |= p.variables()
        return s

    def canonical(self):
        return sorted((r, repr(p)) for r, p in self.items)


def effective_bounds(P, bounds):
    """The enclosure the library will work with: user bounds where given, otherwise the documented cheap
    enclosure (sum of negative / positive coefficients of the BOOLEAN form).  Used only to cap the number of
    slack ancillas a generated call can create (one per unit of range for unary slack)."""
    from .refpoly import SPIN
    B = P.to_bool() if P.kind == SPIN else P
    lo = hi = B.offset()
    for k, v in B.t.items():
        if not k:
            continue
        if v < 0:
            lo += v
        else:
            hi += v
    if bounds:
        if bounds[0] is not None:
            lo = Fraction(bounds[0])
        if bounds[1] is not None:
            hi = Fraction(bounds[1])
    return lo, hi


def check_penalty(H_before, H_after, P, rel, lam, issued, warned_unsat, max_bits=14):
    """The exact penalty oracle of C02/C03 on the delta observed in a live model.

    Returns info dict (new ancillas, rows checked).  Raises Violation."""
    kind = H_before.kind
    F = H_after - H_before
    vP = P.variables()
    vF = F.variables()
    A_new = vF - H_before.variables() - vP
    foreign = vF - vP - A_new
    if foreign:
        raise Violation("penalty_touches_foreign_variables",
                        "the terms added for %s depend on %r, which are neither variables of the constraint nor fresh ancillas "
                        "(an ancilla name was reused or another variable was disturbed)" % (rel, sorted(foreign, key=sort_key)))
    reused = A_new & issued
    if reused:
        raise Violation("ancilla_name_reused", "ancillas %r were already issued earlier in this model's history" % sorted(reused, key=sort_key))
    xs = sorted(vP, key=sort_key)
    an = sorted(A_new, key=sort_key)
    nx, na = len(xs), len(an)
    if nx + na > max_bits:
        return {"new_ancillas": A_new, "rows": 0, "skipped": True}
    order = xs + an
    lam = Fraction(lam)
    try:
        tF, dF = F.table(order)
        tP, dP = P.table(xs)
    except (OverflowError, ValueError):
        return {"new_ancillas": A_new, "rows": 0, "skipped": True}      # numbers too large for an exact int64 table
    tF = tF.reshape(1 << na, 1 << nx)
    if (tF < 0).any():
        a, x = np.argwhere(tF < 0)[0]
        raise Violation("penalty_negative", "F = %s < 0 at %r" % (Fraction(int(tF[a, x]), dF), RefPoly.row_assignment(kind, order, int(x) + (int(a) << nx))))
    sat = holds_vec(rel, tP)
    mn = tF.min(axis=0)
    info = {"new_ancillas": A_new, "rows": int(tF.size), "sat_rows": int(sat.sum()), "unsat_rows": int((~sat).sum())}
    if warned_unsat:
        info["warned_unsat"] = True
        return info
    bad = sat & (mn != 0)
    if bad.any():
        x = int(np.argmax(bad))
        raise Violation("penalty_nonzero_on_satisfying_assignment",
                        "%s: P(x) = %s satisfies the relation but min over ancillas of F = %s at x = %r" %
                        (rel, Fraction(int(tP[x]), dP), Fraction(int(mn[x]), dF), RefPoly.row_assignment(kind, xs, x)))
    # F >= lam  <=>  tF >= lam * dF
    thr = lam * dF
    bad = (~sat) & (mn < float(thr)) if thr.denominator != 1 else (~sat) & (mn < int(thr))
    if bad.any():
        x = int(np.argmax(bad))
        raise Violation("penalty_below_lam_on_violating_assignment",
                        "%s: P(x) = %s violates the relation but min over ancillas of F = %s < lam = %s at x = %r" %
                        (rel, Fraction(int(tP[x]), dP), Fraction(int(mn[x]), dF), lam, RefPoly.row_assignment(kind, xs, x)))
    return info
