#!/venv/bin/python
"""Command line entry: check <prop> --tier quick|thorough ; replay <file>."""
import argparse
import os
import sys

sys.path.insert(0, os.path.dirname(os.path.dirname(os.path.abspath(__file__))))

from simq import runner  # noqa: E402
from simq.props import PROPS  # noqa: E402


def main():
    ap = argparse.ArgumentParser()
    sub = ap.add_subparsers(dest="cmd", required=True)
    c = sub.add_parser("check")
    c.add_argument("prop")
    c.add_argument("--tier", default=os.environ.get("VERIF_TIER", "quick"), choices=["quick", "thorough"])
    c.add_argument("--runs", type=int)
    c.add_argument("--wall", type=float)
    r = sub.add_parser("replay")
    r.add_argument("path")
    a = ap.parse_args()
    if a.cmd == "replay":
        sys.exit(runner.replay_file(a.path))
    spec = PROPS[a.prop]
    plan = dict(spec[a.tier])
    for st in (plan.get("stages") or [plan]):
        if a.runs:
            st["runs"] = a.runs
        if a.wall:
            st["wall"] = a.wall
    chk = runner.Check(a.prop, spec["engine"], a.tier, plan, variant=spec.get("variant", "sim"),
                       evidence_meta=spec.get("meta"), extra_job=spec.get("job"))
    post = spec.get("post")
    sys.exit(chk.run(post=post))


if __name__ == "__main__":
    main()
