"""E4 — annealer simulator (properties C11, C12, C17).

System under simulation: the real `_canneal` extension built from /repo's
sources, called through the real Python front ends.  Simulator-owned seams:
the PCG random stream (pass-through-and-record or scripted), `time()`, and
the heap (poison + red zones, or ASan in the `san` build).
"""
import json
import math
import warnings
from fractions import Fraction

from .common import (BaseWorld, Violation, HarnessError, choose_weighted, enc_label, dec_label, enc_key, dec_key, sort_key)
from .refpoly import RefPoly, BOOL, SPIN
from . import refmetro

FN_KIND = {"quso": SPIN, "puso": SPIN, "qubo": BOOL, "pubo": BOOL}
FN_TYPES = {
    "quso": ["dict", "QUSO", "QUSOMatrix"],
    "qubo": ["dict", "QUBO", "QUBOMatrix"],
    "puso": ["dict", "QUSO", "PUSO", "PCSO", "QUSOMatrix", "PUSOMatrix"],
    "pubo": ["dict", "QUBO", "PUBO", "PCBO", "QUBOMatrix", "PUBOMatrix"],
}
MATRIX = {"QUSOMatrix", "PUSOMatrix", "QUBOMatrix", "PUBOMatrix"}
DEG2 = {"QUSO", "QUBO", "QUSOMatrix", "QUBOMatrix"}
# (function, input type) pairs that stay on the integer-indexed Matrix route inside the front ends, so that the
# kernel's spin index IS the label (pubo_to_puso documents QUBOMatrix -> labelled PUSO, hence its absence)
MATRIX_ROUTE = {("quso", "QUSOMatrix"), ("qubo", "QUBOMatrix"), ("puso", "QUSOMatrix"), ("puso", "PUSOMatrix"), ("pubo", "PUBOMatrix")}

# which oracle belongs to which property
ORACLES = {
    "C11": {"wrong_count", "wrong_keys", "bad_state_value", "wrong_spin_flag", "value_mismatch", "best_wrong",
            "argument_mutated", "unexpected_exception", "not_annealresults"},
    "C12": {"not_reproducible", "schedule_number_type_changes_result", "zero_temperature_increase", "refinement_mismatch", "distribution_mismatch",
            "impossible_state_reached", "unexpected_exception"},
    "C17": {"heap_overflow", "bad_free", "heap_leak", "bad_state_value", "nonfinite_value", "rand_int_bad_bound", "rand_int_out_of_range", "schedule_number_type_changes_result",
            "absurd_allocation"},      # a Python-level exception is C11's business, not a memory-safety violation
}


def enc_state(s):
    return [[enc_label(k), v] for k, v in s.items()]


def dec_state(j):
    return {dec_label(k): v for k, v in j}


class World(BaseWorld):
    def __init__(self, prop, cfg):
        super().__init__(prop, cfg)
        import qubovert as qv
        from qubovert import utils as qu
        from qubovert import sim as qs
        from .shimctl import Shim
        self.qv, self.qu, self.qs = qv, qu, qs
        self.types = {"QUSO": qv.QUSO, "PUSO": qv.PUSO, "PCSO": qv.PCSO, "QUBO": qv.QUBO, "PUBO": qv.PUBO, "PCBO": qv.PCBO,
                      "QUSOMatrix": qu.QUSOMatrix, "PUSOMatrix": qu.PUSOMatrix, "QUBOMatrix": qu.QUBOMatrix,
                      "PUBOMatrix": qu.PUBOMatrix, "dict": dict}
        self.fns = {"quso": qs.anneal_quso, "puso": qs.anneal_puso, "qubo": qs.anneal_qubo, "pubo": qs.anneal_pubo}
        self.shim = Shim()
        self.active = ORACLES[prop]
        self.calls = []          # recorded anneal ops, for repeats
        self.results = []        # digest-able results per call
        self.ncalls = 0
        self.last_op_json = None
        self.underruns = []
        self.last_live = 0

    def fail(self, oracle, detail):
        if oracle in self.active:
            raise Violation(oracle, detail)
        self.probe("other_property_oracle:" + oracle)

    # ================================================================ generation
    def gen_labels(self, rng, n, matrix):
        if matrix:
            if rng.random() < self.cfg["p_gap"] and n >= 1:
                pool = list(range(n + rng.randint(1, 3)))
                labs = sorted(rng.sample(pool, n))
                return labs
            return list(range(n))
        style = self.cfg["labels"]
        if style == "int":
            pool = [0, 1, 2, 3, 4, 5, 7, 11, 6, 8, 9, 13, 21]
        elif style == "str":
            pool = ["a", "b", "c", "x0", "x1", "y", "zz", "q", "r", "s", "t", "u1", "u2"]
        elif style == "tuple":
            pool = [("v", i) for i in range(6)] + [("w", 0), ("a", 1), ("a", 2), ("u", 5), ("w", 1), ("w", 2), ("z", 0)]
        else:
            pool = [0, 1, "a", "b", ("v", 0), ("v", 1), 5, "x", 2, 3, "c", ("v", 2), "d"]
        return rng.sample(pool, n)

    def gen_model(self, rng, fn):
        c = self.cfg
        mtype = rng.choice(FN_TYPES[fn])
        if rng.random() < c["p_matrix"]:
            ms = [t for t in FN_TYPES[fn] if t in MATRIX]
            mtype = rng.choice(ms)
        matrix = mtype in MATRIX
        maxdeg = 2 if (fn in ("quso", "qubo") or mtype in DEG2) else rng.choice([2, 3, 3, 4, 6])
        n = rng.choice(c["sizes"])
        labels = self.gen_labels(rng, n, matrix)
        terms = {}
        shape = choose_weighted(rng, [("dense", 4), ("linear_only", 1), ("no_linear", 1.5), ("sparse", 3), ("single_term", 1),
                                      ("many_terms", 1.2 if n >= 4 else 0), ("star", 1.0 if n >= 4 else 0)])
        coefs = c["coefs"]

        def coef():
            return rng.choice(coefs)
        if n:
            if shape in ("dense", "linear_only", "sparse"):
                for l in labels:
                    if rng.random() < (0.8 if shape != "sparse" else 0.4):
                        terms[(l,)] = coef()
            if shape in ("dense", "no_linear", "sparse") and n >= 2:
                m = rng.randint(1, min(8, n * (n - 1) // 2 + 2)) if shape != "sparse" else rng.randint(1, 2)
                for _ in range(m):
                    d = rng.randint(2, min(maxdeg, n))
                    key = tuple(rng.sample(labels, d))
                    if matrix or rng.random() < 0.7:
                        key = tuple(sorted(key, key=sort_key))
                    if not any(set(key) == set(k) for k in terms):
                        terms[key] = coef()
            if shape == "many_terms":
                # many distinct couplings: long neighbour / subgraph lists, many reallocations in the PUSO kernel
                import itertools
                allk = [k for d in range(2, min(maxdeg, 3) + 1) for k in itertools.combinations(sorted(labels, key=sort_key), d)]
                rng.shuffle(allk)
                for k in allk[: rng.randint(12, 40)]:
                    terms[tuple(k)] = coef()
                for l in labels:
                    if rng.random() < 0.5:
                        terms[(l,)] = coef()
            if shape == "star":
                # one hub spin that takes part in (almost) every term
                hub = labels[rng.randrange(n)]
                others = [l for l in labels if l != hub]
                for l in others:
                    terms[tuple(sorted((hub, l), key=sort_key))] = coef()
                if maxdeg >= 3:
                    for _ in range(rng.randint(0, 10)):
                        pair = rng.sample(others, 2)
                        terms[tuple(sorted([hub] + pair, key=sort_key))] = coef()
            if shape == "single_term":
                d = rng.randint(1, min(maxdeg, n))
                terms[tuple(sorted(rng.sample(labels, d), key=sort_key))] = coef()
            if matrix and labels and not any(labels[-1] in k for k in terms):
                terms[(labels[-1],)] = coef()     # make max_index what the label list says
        if rng.random() < c["p_offset"]:
            terms[()] = rng.choice(coefs + [7 * c.get("coef_scale", 1), -5 * c.get("coef_scale", 1)])
        if mtype == "dict" and n >= 2 and rng.random() < c.get("p_zero_entry", 0.1):
            # a plain dict may carry explicit zero coefficients (over labels the model has anyway)
            used = sorted({l for k in terms for l in k}, key=sort_key)
            if len(used) >= 2:
                k = tuple(rng.sample(used, 2)) if rng.random() < 0.7 else (rng.choice(used),)
                if not any(set(k) == set(kk) for kk in terms):
                    terms[k] = 0
                    self.probe("dict_with_zero_coefficient")
        items = list(terms.items())
        rng.shuffle(items)
        edits = []
        if mtype != "dict" and items and rng.random() < c["p_stale"]:
            kind = rng.choice(["cancel_one", "cancel_all", "cancel_var"])
            nz = [k for k, _ in items if k]
            if nz:
                if kind == "cancel_one":
                    k = rng.choice(nz)
                    edits.append([enc_key(k), -terms[k]])
                elif kind == "cancel_all":
                    for k in nz:
                        edits.append([enc_key(k), -terms[k]])
                else:
                    v = rng.choice(nz)[0]
                    for k in nz:
                        if v in k:
                            edits.append([enc_key(k), -terms[k]])
            if edits and rng.random() < c.get("p_refresh", 0.3):
                edits.append(["R", 0])       # the documented remedy for cancelled variables: model.refresh(), then anneal
        md = {"type": mtype, "terms": [[enc_key(k), v] for k, v in items], "edits": edits}
        if mtype != "dict" and rng.random() < c.get("p_scribble", 0.0):
            md["scribble"] = [rng.randrange(6) for _ in range(rng.randint(1, 2))]
        if mtype not in MATRIX and mtype != "dict" and rng.random() < c.get("p_set_mapping", 0.15):
            # the user pins the label -> index mapping himself (documented: set_mapping / set_reverse_mapping), in any dict order
            labs = sorted({l for k, _ in items for l in k}, key=sort_key)
            if len(labs) >= 2:
                idx = list(range(len(labs)))
                rng.shuffle(idx)
                pairs = list(zip(labs, idx))
                rng.shuffle(pairs)
                md["set_mapping"] = {"how": rng.choice(["set_mapping", "set_reverse_mapping"]), "pairs": [[enc_label(l), i] for l, i in pairs]}
            if edits and edits[-1][0] == "R" and rng.random() < 0.5:
                # ... or pins it on the refreshed model, over the labels that survived
                left = sorted({l for k, v in self.model_info("puso", md)[0].t.items() for l in k}, key=sort_key)
                if len(left) >= 2:
                    idx = list(range(len(left)))
                    rng.shuffle(idx)
                    md["set_mapping"] = {"how": rng.choice(["set_mapping", "set_reverse_mapping"]), "when": "end",
                                         "pairs": [[enc_label(l), i] for l, i in zip(left, idx)]}
                else:
                    md.pop("set_mapping", None)
        return md

    def model_info(self, fn, m):
        """(RefPoly, reported-variable superset, true variables, matrix?, N for matrix)."""
        kind = FN_KIND[fn]
        p = RefPoly(kind)
        reported = set()
        for k, v in m["terms"]:
            key = dec_key(k)
            p.add_term(key, v)
            reported |= set(key)
        for k, d in m.get("edits", []):
            if k == "R":
                reported = set(p.variables())      # refresh(): the bookkeeping is rebuilt from the surviving terms
                continue
            key = dec_key(k)
            p.add_term(key, d)
            reported |= set(key)
        return p, reported

    def gen_schedule(self, rng, op, poly):
        c = self.cfg
        mode = choose_weighted(rng, [("default", c["w_default_sched"]), ("named_range", 2), ("explicit", c["w_explicit"]),
                                     ("zeros", c["w_zero"]), ("empty", 0.4)])
        op["anneal_duration"] = rng.randint(1, 6)
        if rng.random() < c.get("p_long", 0.05):
            op["anneal_duration"] = rng.choice([None, 50, 200, None])      # None: argument omitted (default 1000)
        op["temperature_range"] = None
        if mode == "default":
            op["schedule"] = rng.choice(["linear", "geometric"])
        elif mode == "named_range":
            op["schedule"] = rng.choice(["linear", "geometric"])
            T0 = rng.choice([0.5, 1, 2, 4.0, 10])
            Tf = rng.choice([t for t in (0.25, 0.5, 1, 2, 4.0) if t <= T0])
            if op["schedule"] == "linear" and rng.random() < 0.3:
                Tf = 0
            op["temperature_range"] = [T0, Tf]
        elif mode == "explicit":
            k = rng.randint(1, 5)
            if rng.random() < c.get("p_long", 0.05):
                k = rng.choice([12, 40, 150])
            op["schedule"] = [rng.choice([0.5, 1, 2, 3.0, 0.25, 8, 0, 1.5]) for _ in range(k)]
            if rng.random() < c.get("p_inf_T", 0.05):
                op["schedule"][rng.randrange(k)] = float("inf")      # an infinitely hot sweep: every move is accepted
            if rng.random() < 0.3:
                op["sched_as"] = rng.choice(["tuple", "ndarray", "gen", "range_like"])
            if rng.random() < 0.1:
                op["temperature_range"] = [4, 1]      # documented: ignored (with a warning) when an explicit schedule is given
        elif mode == "zeros":
            op["schedule"] = [0] * rng.randint(1, 4) if rng.random() < 0.7 else [0.0, 0]
        else:
            op["schedule"] = []

    def gen_live_edit(self, rng):
        """The caller keeps a model OBJECT, edits it in place between annealer calls (zeroing a term, adding a term at a
        larger index and cancelling it again, changing a coefficient) and anneals the same object again."""
        fn, m = self.live_desc
        m = {k: (list(v) if isinstance(v, list) else v) for k, v in m.items()}
        poly, reported = self.model_info(fn, m)
        labels = sorted(reported, key=sort_key)
        new = []
        how = rng.choice(["zero_term", "grow_then_cancel", "change", "zero_term", "refresh"])
        if rng.random() < self.cfg.get("p_scribble", 0.0):
            how = "scribble"
        nz = [k for k in poly.t if k]
        if how == "refresh":
            if not any(k != "R" for k, _ in m.get("edits", [])) or m["edits"][-1][0] == "R":
                how = "zero_term"
            else:
                new.append(["R", 0])
        if how == "zero_term" and nz:
            k = tuple(sorted(rng.choice(sorted(nz, key=lambda x: sorted(map(repr, x)))), key=sort_key))
            new.append([enc_key(k), -float(poly.t[frozenset(k)]) if poly.t[frozenset(k)].denominator != 1 else -int(poly.t[frozenset(k)])])
        elif how == "grow_then_cancel" and m["type"] in MATRIX and labels:
            big = max(labels) + rng.randint(1, 3)
            new.append([[big], 1])
            new.append([[big], -1])
        elif labels and not new:
            new.append([enc_key((rng.choice(labels),)), rng.choice([1, -1, 2]) * self.cfg.get("coef_scale", 1)])
        if how == "scribble":
            sc = [rng.randrange(6)]
            m["scribble"] = list(m.get("scribble", [])) + sc
            m["live"] = True
            m["new_edits"] = []
            m["new_scribble"] = sc
            return self.gen_anneal(rng, fn=fn, m=m)
        if not new:
            return None
        m["edits"] = list(m.get("edits", [])) + new
        m["live"] = True
        m["new_edits"] = new
        m.pop("new_scribble", None)
        return self.gen_anneal(rng, fn=fn, m=m)

    def gen_anneal(self, rng, fn=None, m=None):
        c = self.cfg
        if fn is None:
            fn = rng.choice(c["fns"])
            m = self.gen_model(rng, fn)
            if m["type"] != "dict" and rng.random() < c.get("p_live", 0.15) and (m.get("set_mapping") or {}).get("when") != "end":
                m["keep"] = True
        poly, reported = self.model_info(fn, m)
        op = {"op": "anneal", "fn": fn, "model": m}
        op["num_anneals"] = rng.choice(c["num_anneals"])
        self.gen_schedule(rng, op, poly)
        matrix = m["type"] in MATRIX
        kind = FN_KIND[fn]
        if matrix:
            universe = list(range(max(reported) + 1)) if reported else []
        else:
            universe = sorted(reported, key=sort_key)
        if universe and rng.random() < c["p_init"]:
            vals = (1, -1) if kind == SPIN else (0, 1)
            st = {l: rng.choice(vals) for l in universe}
            if not matrix and rng.random() < 0.15:
                st[("__extra", 0)] = vals[0]        # a superset of the model's labels is still a map from the labels to their values
            items = list(st.items())
            rng.shuffle(items)
            op["initial_state"] = enc_state(dict(items))
        else:
            op["initial_state"] = None
        op["in_order"] = rng.random() < 0.5
        omit = []
        if op["in_order"] and rng.random() < 0.2:
            omit.append("in_order")
        if op["num_anneals"] == 1 and rng.random() < 0.3:
            omit.append("num_anneals")
        if op.get("temperature_range") is None and rng.random() < 0.3:
            omit.append("temperature_range")
        if op["schedule"] == "geometric" and rng.random() < 0.5:
            omit.append("schedule")
        if op["initial_state"] is None and rng.random() < 0.3:
            omit.append("initial_state")
        if omit:
            op["omit"] = omit
        op["seed"] = rng.choice([None, 0, 1, 2**31 - 1, rng.randrange(2**31), rng.randrange(1000)])
        op["clock"] = [rng.choice([0, 1, -1, 1700000000, 2**32 + 5, 2**31 - 1, rng.randrange(2**31)])]
        # which RNG fault
        kinds = [("pass", c["w_pass"]), ("script_uniform", c["w_script"]), ("extreme", c["w_extreme"]), ("raw", c.get("w_raw", 1))]
        can_refine = (fn, m["type"]) in MATRIX_ROUTE and op["initial_state"] is not None and not isinstance(op["schedule"], str) and op["num_anneals"] > 0 \
            and (not m["edits"] or fn in ("quso", "puso")) and len(universe) <= 10
        if can_refine:
            kinds.append(("boundary", c["w_boundary"]))
        mode = choose_weighted(rng, kinds)
        N = len(universe)
        if mode == "pass" or N == 0:
            op["rng"] = {"mode": "pass"}
        elif mode == "script_uniform":
            nd = rng.randint(0, 60)
            op["rng"] = {"mode": "script", "d": [rng.randrange(2**32) / 2.0**32 for _ in range(nd)],
                         "i": [rng.randrange(64) for _ in range(rng.randint(0, 60))], "cycle": rng.random() < 0.3}
        elif mode == "raw":
            # script the generator's raw 32-bit words: values a real PCG stream emits once in 2^32 draws
            E = [0xFFFFFFFF, 0, 0x80000000, 0x7FFFFFFF, 1, 0xFFFFFFFE]
            words = rng.choice([[0xFFFFFFFF], [0], [0xFFFFFFFF, 0], [0, 0xFFFFFFFF], [0x80000000], [0x7FFFFFFF, 0xFFFFFFFF],
                                [rng.choice(E + [rng.randrange(2**32)]) for _ in range(rng.randint(2, 12))]])
            op["rng"] = {"mode": "raw", "words": words, "cycle": rng.random() < 0.8}
        elif mode == "extreme":
            hi = 1 - 2.0**-32
            op["rng"] = {"mode": "script", "d": rng.choice([[0.0], [hi], [0.0, hi], [hi, 0.0], [0.5], [0.4999999, 0.5]]),
                         "i": rng.choice([[0], [N - 1], [0, N - 1], [N - 1, 0], list(range(N))[::-1]]), "cycle": True}
        else:
            order = list(range(N))
            tab, den = poly.table(order)
            st = dec_state(op["initial_state"])
            r0 = RefPoly.assignment_row(kind, order, st)
            steps = max(op["num_anneals"], 0) * len(op["schedule"]) * N
            visits = [rng.randrange(N) for _ in range(steps)]
            sides = [rng.random() < 0.5 for _ in range(steps)]
            d = refmetro.boundary_script(tab, den, N, r0, [float(t) for t in op["schedule"]], op["in_order"],
                                         max(op["num_anneals"], 0), visits, sides)
            op["rng"] = {"mode": "script", "d": d, "i": visits, "cycle": False, "boundary": True}
        return op

    def gen_dist(self, rng):
        c = self.cfg
        fn = rng.choice(c["fns"])
        n = rng.choice([1, 2, 2, 3, 3])
        kind = FN_KIND[fn]
        in_order = rng.random() < 0.5
        mtypes = [t for t in FN_TYPES[fn] if (fn, t) in MATRIX_ROUTE]
        if not in_order and rng.random() < 0.3:
            mtypes = [t for t in FN_TYPES[fn] if t not in MATRIX]
        mtype = rng.choice(mtypes)
        labels = list(range(n)) if mtype in MATRIX else self.gen_labels(rng, n, False)
        terms = {}
        maxdeg = 2 if (fn in ("quso", "qubo") or mtype in DEG2) else 3
        for l in labels:
            if rng.random() < 0.7:
                terms[(l,)] = rng.choice([-2, -1, 1, 2])
        for _ in range(rng.randint(1, 3)):
            if n >= 2:
                d = rng.randint(2, min(n, maxdeg))
                key = tuple(sorted(rng.sample(labels, d), key=sort_key))
                terms[key] = rng.choice([-2, -1, 1, 2])
        if not any(labels[-1] in k for k in terms):
            terms[(labels[-1],)] = rng.choice([-1, 1])
        if mtype not in MATRIX:
            for l in labels:
                if not any(l in k for k in terms):
                    terms[(l,)] = rng.choice([-1, 1])
        if rng.random() < 0.3:
            terms[()] = rng.choice([-3, 2])
        vals = (1, -1) if kind == SPIN else (0, 1)
        st = {l: rng.choice(vals) for l in labels}
        return {"op": "dist", "fn": fn, "model": {"type": mtype, "terms": [[enc_key(k), v] for k, v in terms.items()], "edits": []},
                "schedule": [rng.choice([0.5, 1, 2]) for _ in range(rng.randint(1, 3))], "initial_state": enc_state(st),
                "in_order": in_order, "seed": rng.randrange(2**31), "n": c["dist_n"]}

    def gen_op(self, rng):
        c = self.cfg
        if self.ncalls >= c["n_calls"]:
            return None
        if self.calls and rng.random() < c["p_repeat"]:
            mode = rng.choice(["immediate", "earlier", "entropy"])
            if mode == "immediate":
                of = len(self.calls) - 1
            elif mode == "entropy":
                # prefer calls whose outcome depends on many random bits
                best = max(range(len(self.calls)), key=lambda i: (self.calls[i].get("_entropy", 0), i))
                of = best
            else:
                of = rng.randrange(len(self.calls))
            rop = {"op": "repeat", "of": of, "clock": [rng.choice([0, 5, -1, 10**9, 2**32 + 7, rng.randrange(2**31)])]}
            if isinstance(self.calls[of].get("schedule"), list) and self.calls[of].get("seed") is not None and rng.random() < 0.35:
                rop["variant"] = "float_schedule"
                rop["clock"] = self.calls[of].get("clock", [0])
            elif rng.random() < 0.3:
                # the twin call is issued from another execution context (a fresh thread, or below extra C frames):
                # same arguments, same seed, other stack addresses
                rop["ctx"] = rng.choice(["thread", "nested"])
            return rop
        if getattr(self, "live_desc", None) is not None and getattr(self, "last_live_op", None) is not None and rng.random() < 0.2:
            return {"op": "relive"}
        if getattr(self, "live_desc", None) is not None and rng.random() < 0.6:
            op = self.gen_live_edit(rng)
            if op is not None:
                return op
        if c["p_dist"] and rng.random() < c["p_dist"]:
            return self.gen_dist(rng)
        if c.get("p_huge") and rng.random() < c["p_huge"]:
            big = rng.random() < c.get("p_huge_main", 0.0)
            return {"op": "huge", "fn": rng.choice(c["fns"]), "N": rng.choice([1300000, 1100000]) if big else rng.choice([70000, 60000, 45000, 33000]),
                    "stack_kb": 0 if big else 256, "in_order": rng.random() < 0.7, "init": rng.random() < 0.5, "seed": rng.randrange(1000),
                    "schedule": rng.choice([[0], [0, 0.5], [1.0]])}
        return self.gen_anneal(rng)

    # ================================================================ execution
    def build_model(self, m):
        T = self.types[m["type"]]
        d = {}
        for k, v in m["terms"]:
            d[dec_key(k)] = v
        obj = T(d) if m["type"] != "dict" else d
        sm = m.get("set_mapping")
        if sm and sm.get("when") == "end":
            sm = None
        if sm:
            # the user pins the mapping on the freshly built model; later edits (and refresh(), which rebuilds the
            # bookkeeping) happen to that object, exactly as they do for a model kept alive between calls
            pairs = [(dec_label(l), i) for l, i in sm["pairs"]]
            if sm["how"] == "set_mapping":
                obj.set_mapping(dict(pairs))
            else:
                obj.set_reverse_mapping({i: l for l, i in pairs})
            self.fault("user_defined_mapping")
        for k, delta in m.get("edits", []):
            if k == "R":
                obj.refresh()
                self.fault("model_refreshed_after_cancellation")
                continue
            obj[dec_key(k)] += delta
        sm = m.get("set_mapping")
        if sm and sm.get("when") == "end":
            pairs = [(dec_label(l), i) for l, i in sm["pairs"]]
            if sm["how"] == "set_mapping":
                obj.set_mapping(dict(pairs))
            else:
                obj.set_reverse_mapping({i: l for l, i in pairs})
            self.fault("user_defined_mapping")
            self.probe("mapping_pinned_on_refreshed_model")
        if m["type"] != "dict":
            for which in m.get("scribble", []):
                self.scribble(obj, which)
        return obj

    def scribble(self, obj, which):
        """Injected fault: the caller scribbles over what the model's accessors handed him (documented to be copies)."""
        try:
            if which == 0:
                obj.variables.clear()
            elif which == 1:
                v = obj.variables
                if v:
                    v.discard(max(v, key=sort_key))
            elif which == 2 and hasattr(obj, "mapping"):
                obj.mapping.clear()
            elif which == 3 and hasattr(obj, "reverse_mapping"):
                m = obj.reverse_mapping
                m.clear()
            elif which == 4 and hasattr(obj, "mapping"):
                m = obj.mapping
                for k in list(m):
                    m[k] = m[k] + 7
            else:
                v = obj.variables
                v.add(max(v) + 3 if v and all(isinstance(x, int) for x in v) else "scribbled")
        except Exception as e:
            raise HarnessError("scribble failed: %r" % (e,))
        self.fault("accessor_result_scribbled")

    def snapshot(self, obj):
        if type(obj) is dict:
            return ("dict", sorted(((tuple(map(repr, k)), v) for k, v in obj.items())))
        snap = [type(obj).__name__, sorted(((tuple(map(repr, k)), v) for k, v in dict.items(obj)))]
        for attr in ("_variables", "_degree", "_num_binary_variables", "_mapping", "_reverse_mapping", "_ancilla", "_next_label"):
            if hasattr(obj, attr):
                v = getattr(obj, attr)
                if isinstance(v, (set, frozenset)):
                    v = sorted(map(repr, v))
                elif isinstance(v, dict):
                    v = sorted((repr(a), repr(b)) for a, b in v.items())
                snap.append((attr, v))
        if hasattr(obj, "_constraints"):
            snap.append(("_constraints", repr(sorted((k, [sorted(map(repr, dict.items(c))) for c in cs]) for k, cs in obj._constraints.items()))))
        return snap

    def do_call(self, op, clock=None, log=True):
        """Performs the annealer call under the simulator's seams."""
        fn = self.fns[op["fn"]]
        md = op["model"]
        live = getattr(self, "live_obj", None)
        if md.get("live") and live is not None and live[1] == (op["fn"], md["type"], json.dumps(md["terms"], sort_keys=True)):
            model = live[0]
            for k, delta in md.get("new_edits", []):
                if k == "R":
                    model.refresh()
                    self.fault("model_refreshed_after_cancellation")
                    continue
                model[dec_key(k)] += delta
            for which in md.get("new_scribble", []):
                self.scribble(model, which)
            self.fault("live_model_edited_between_calls")
        else:
            model = self.build_model(md)
        if md.get("keep") or md.get("live"):
            self.live_obj = (model, (op["fn"], md["type"], json.dumps(md["terms"], sort_keys=True)))
        init = dec_state(op["initial_state"]) if op.get("initial_state") is not None else None
        init_copy = dict(init) if init is not None else None
        before = self.snapshot(model)
        sh = self.shim
        live_before = sh.live_blocks()
        sh.reset()
        sh.log_enabled(log)
        r = op.get("rng", {"mode": "pass"})
        if r["mode"] == "raw":
            sh.passthrough()
            sh.raw_script(r.get("words"), r.get("cycle", True))
            self.fault("rng_raw_words_scripted")
        elif r["mode"] == "script":
            sh.script(r.get("d"), r.get("i"), r.get("cycle", False))
            self.fault("rng_boundary" if r.get("boundary") else ("rng_scripted_cycle" if r.get("cycle") else "rng_scripted"))
        else:
            sh.passthrough()
            self.fault("rng_passthrough_recorded")
        sh.clock(clock if clock is not None else op.get("clock", []))
        kwargs = dict(num_anneals=op.get("num_anneals", 1), anneal_duration=op.get("anneal_duration", 1000),
                      initial_state=init, temperature_range=tuple(op["temperature_range"]) if op.get("temperature_range") else None,
                      schedule=op["schedule"] if isinstance(op["schedule"], str) else list(op["schedule"]),
                      in_order=op["in_order"], seed=op.get("seed"))
        # the schedule is documented as "an iterable of floats": hand it over in other container types too
        sa = op.get("sched_as")
        if sa and not isinstance(op["schedule"], str):
            import numpy as _np
            sched = list(op["schedule"])
            kwargs["schedule"] = {"tuple": tuple(sched), "ndarray": _np.array(sched, dtype=float), "gen": (t for t in sched),
                                  "range_like": iter(sched)}[sa]
            self.probe("schedule_as_" + sa)
        if op.get("temperature_range") and op.get("range_as_list"):
            kwargs["temperature_range"] = list(op["temperature_range"])
        # arguments recorded as "omitted" are really left out, so the documented defaults are exercised
        if op.get("anneal_duration") is None:
            del kwargs["anneal_duration"]
            self.probe("default_anneal_duration")
        for name in op.get("omit", []):
            kwargs.pop(name, None)
        exc = None
        res = None
        with warnings.catch_warnings(record=True) as wlist:
            warnings.simplefilter("always")
            try:
                ctx = op.get("ctx")
                if ctx == "thread":
                    import threading
                    box = {}

                    def _run():
                        try:
                            box["res"] = fn(model, **kwargs)
                        except Exception as e_:      # noqa
                            box["exc"] = e_
                    th = threading.Thread(target=_run)
                    th.start()
                    th.join()
                    self.fault("call_from_another_thread")
                    if "exc" in box:
                        raise box["exc"]
                    res = box.get("res")
                elif ctx == "nested":
                    def _deep(k):
                        return fn(model, **kwargs) if k == 0 else list(map(_deep, [k - 1]))[0]
                    res = _deep(12)
                    self.fault("call_below_extra_c_frames")
                else:
                    res = fn(model, **kwargs)
            except Exception as e:      # noqa
                exc = e
        cnt = sh.counters()
        cnt["live_before"], cnt["live_after"] = live_before, sh.live_blocks()
        cnt["live_canary_bad"] = sh.check_live()
        after = self.snapshot(model)
        return {"res": res, "exc": exc, "cnt": cnt, "model": model, "mut": before != after or init != init_copy,
                "warnings": [str(w.message)[:60] for w in wlist], "log": sh.log() if log else None, "init": init}

    # ---------------------------------------------------------------- oracles
    def check_memory(self, out, op, repeat_immediate=False):
        c = out["cnt"]
        if c["canary_bad"] or c["live_canary_bad"]:
            self.fail("heap_overflow", "red zone overwritten (canary_bad=%d live=%d) in %s" % (c["canary_bad"], c["live_canary_bad"], op["fn"]))
        if c["bad_free"]:
            self.fail("bad_free", "free/realloc of a pointer the extension does not own (or double free): %d" % c["bad_free"])
        if c["bad_bound"]:
            self.fail("rand_int_bad_bound", "rand_int called with bound <= 0")
        if c["bad_int"]:
            self.fail("rand_int_out_of_range", "rand_int returned a value outside [0, bound) %d time(s) and the kernel used it as a spin index "
                      "(raw generator words scripted: %r)" % (c["bad_int"], op.get("rng", {}).get("words")))
        if c["bad_double"]:
            self.probe("rand_double_outside_unit_interval", c["bad_double"])
        if c["neg_allocs"]:
            self.fail("absurd_allocation", "allocation of >= 2^40 bytes requested")
        if c["zero_allocs"]:
            self.probe("malloc_zero_bytes")
        if c["live_after"] > c["live_before"]:
            self.probe("live_blocks_grew")
            if repeat_immediate:
                self.fail("heap_leak", "live C heap blocks grew %d -> %d across a verbatim repeat of the previous call" % (c["live_before"], c["live_after"]))

    def check_wellformed(self, op, out, poly, reported):
        """C11 (and the poison part of C17)."""
        fnname = op["fn"]
        kind = FN_KIND[fnname]
        res = out["res"]
        n = max(op.get("num_anneals", 1), 0)
        AR = self.qs.AnnealResults
        if not isinstance(res, AR):
            self.fail("not_annealresults", type(res).__name__)
            return None
        if len(res) != n:
            self.fail("wrong_count", "asked %d got %d" % (n, len(res)))
        m = op["model"]
        true_vars = poly.variables()
        if m["type"] in MATRIX:
            want_keys = set(range(max(reported) + 1)) if reported else set()
            if m["edits"]:
                lo_keys = set(range(max(true_vars) + 1)) if true_vars else set()
            else:
                lo_keys = want_keys
        else:
            want_keys = set(reported)
            lo_keys = set(true_vars) if m["edits"] else want_keys
        if m["type"] == "dict":
            # labels that occur only in explicit zero-coefficient entries of a plain dict may or may not count as variables
            lo_keys = set(true_vars)
        if m["type"] == "QUBOMatrix" and fnname == "pubo":
            # pubo_to_puso documents "PUBOMatrix -> PUSOMatrix, anything else -> PUSO", so this input legitimately
            # takes the labelled route and reports exactly the model's variables; both readings are accepted.
            lo_keys = set(true_vars) if m["edits"] else set(reported)
        dom = (1, -1) if kind == SPIN else (0, 1)
        rows = []
        for idx, r in enumerate(list.__iter__(res)):
            st = r.state
            keys = set(st.keys())
            if not (lo_keys <= keys <= want_keys):
                self.fail("wrong_keys", "result %d: keys %r, model variables %r" % (idx, sorted(keys, key=sort_key), sorted(want_keys, key=sort_key)))
            bad = {k: v for k, v in st.items() if not (isinstance(v, int) and v in dom)}
            if bad:
                self.fail("bad_state_value", "result %d: values outside %r: %r" % (idx, dom, bad))
                continue
            if bool(r.spin) != (kind == SPIN):
                self.fail("wrong_spin_flag", "result %d: spin=%r for anneal_%s" % (idx, r.spin, fnname))
            v = r.value
            if isinstance(v, float) and not math.isfinite(v):
                self.fail("nonfinite_value", "result %d: value %r" % (idx, v))
                continue
            full = {l: st.get(l, dom[0]) for l in true_vars | keys}
            want = poly.value(full)
            try:
                got = Fraction(v)
            except Exception:
                got = None
            if got != want:
                self.fail("value_mismatch", "result %d: value %r but model(state) = %s at %r" % (idx, v, want, st))
            rows.append((st, want))
        if n:
            b = res.best
            if b is None or any(Fraction(x.value) < Fraction(b.value) for x in list.__iter__(res) if isinstance(x.value, (int, float)) and math.isfinite(x.value)):
                self.fail("best_wrong", "best=%r" % (b,))
        elif res.best is not None:
            self.fail("best_wrong", "best=%r for empty results" % (res.best,))
        if out["mut"]:
            self.fail("argument_mutated", "model or initial_state changed by anneal_%s" % fnname)
        return rows

    def check_dynamics(self, op, out, poly, reported):
        """C12: zero-temperature monotonicity and decision-exact refinement."""
        res = out["res"]
        m = op["model"]
        kind = FN_KIND[op["fn"]]
        sched = op["schedule"]
        init = out["init"]
        n = max(op.get("num_anneals", 1), 0)
        if init is None or isinstance(sched, str) or n == 0:
            return
        Ts = [float(t) for t in sched]
        allzero = all(t == 0 for t in Ts)
        true_vars = poly.variables()
        if allzero:
            self.probe("zero_temperature_call")
            dom0 = 1 if kind == SPIN else 0
            e0 = poly.value({l: init.get(l, dom0) for l in true_vars})
            for idx, r in enumerate(list.__iter__(res)):
                try:
                    v = Fraction(r.value)
                except Exception:
                    continue
                if v > e0:
                    self.fail("zero_temperature_increase", "result %d: value %s > value of initial state %s" % (idx, v, e0))
        if (op["fn"], m["type"]) not in MATRIX_ROUTE or not reported:
            return
        if m["edits"] and op["fn"] not in ("quso", "puso"):
            return      # the boolean front ends rebuild the model, so a cancelled top index changes the spin count
        N = max(reported) + 1
        if N > 12:
            return
        order = list(range(N))
        tab, den = poly.table(order)
        try:
            r0 = RefPoly.assignment_row(kind, order, init)
            finals = [RefPoly.assignment_row(kind, order, r.state) for r in list.__iter__(res)]
        except Exception:
            return      # malformed states are C11's business
        log = [e for e in out["log"] if e[0] != refmetro.INIT]
        ref = refmetro.Refinement(tab, den, N, r0, Ts, bool(op["in_order"]), n)
        ok, reason, info = ref.run(log, finals)
        self.steps += info.get("steps", 0)
        if not ok:
            self.fail("refinement_mismatch", "kernel's final states are not reachable by Metropolis steps on the exact energies "
                      "with the recorded draws: %s (fn=%s in_order=%s Ts=%s)" % (reason, op["fn"], op["in_order"], Ts))
            return
        self.interesting = True
        self.probe("refined_calls")
        for k in ("tie", "accept_draw", "reject_draw", "zeroT", "downhill", "saturated"):
            if info.get(k):
                self.probe("step_" + k, info[k])
        if op.get("rng", {}).get("boundary"):
            self.probe("boundary_calls")
        self.probe("convention_" + info.get("convention", "?"))

    def result_digest(self, res):
        return [[sorted(((repr(k), v) for k, v in r.state.items())), r.value, bool(r.spin)] for r in list.__iter__(res)]

    def apply(self, op):
        self.ncalls += 1
        kind = op["op"]
        if kind == "anneal":
            return self.apply_anneal(op)
        if kind == "repeat":
            return self.apply_repeat(op)
        if kind == "dist":
            return self.apply_dist(op)
        if kind == "huge":
            return self.apply_huge(op)
        if kind == "relive":
            return self.apply_relive(op)
        raise HarnessError("unknown op " + kind)

    def note_shape(self, op, poly, reported):
        m = op["model"]
        tv = poly.variables()
        if m["type"] in MATRIX and reported and len(reported) < max(reported) + 1:
            self.probe("matrix_index_gap")
        if len(reported) == 1:
            self.probe("single_variable")
        if not reported:
            self.probe("no_variables")
        if reported and not tv:
            self.probe("variables_but_no_nonconstant_term")
        if m["edits"]:
            self.probe("stale_model")
        if poly.degree() >= 5:
            self.probe("degree_ge_5")
        if reported and poly.degree() <= 1:
            self.probe("no_couplings")
        if op.get("schedule") == []:
            self.probe("empty_schedule")
        if op.get("num_anneals", 1) > 1 and op.get("initial_state") is not None:
            self.probe("many_anneals_with_initial_state")
        if op.get("num_anneals", 1) <= 0:
            self.probe("num_anneals_le_0")
        if op.get("seed") == 0:
            self.probe("seed_zero")
        if op.get("seed") is None:
            self.probe("seed_none")

    def apply_anneal(self, op, record=True, clock=None, repeat_immediate=False):
        poly, reported = self.model_info(op["fn"], op["model"])
        self.note_shape(op, poly, reported)
        out = self.do_call(op, clock=clock)
        c = out["cnt"]
        if c["clock_reads"]:
            self.fault("clock_read", c["clock_reads"])
        self.extra["c_draws"] = self.extra.get("c_draws", 0) + c["n_double"] + c["n_int"]
        self.check_memory(out, op, repeat_immediate)
        ev = ["anneal", op["fn"], op["model"]["type"]]
        if out["exc"] is not None:
            e = out["exc"]
            self.fail("unexpected_exception", "anneal_%s(%s model): %s: %s" % (op["fn"], op["model"]["type"], type(e).__name__, str(e)[:200]))
            digest = ["exc", type(e).__name__]
        else:
            self.check_wellformed(op, out, poly, reported)
            self.check_dynamics(op, out, poly, reported)
            digest = self.result_digest(out["res"])
        # seed=None streams are seeded from the (simulated) clock AND a stack address: whenever such a stream was
        # actually consumed (pass-through, or a script that ran dry) the outcome is not replayable -> verdict only
        rmode = op.get("rng", {}).get("mode", "pass")
        fell_through = c["underrun_d"] + c["underrun_i"] > 0 if rmode == "script" else (c["raw_underrun"] > 0 if rmode == "raw" else True)
        unrepl = op.get("seed") is None and fell_through
        if unrepl:
            self.probe("unreplayable_unseeded_calls")
            digest = ["unseeded", len(digest) if isinstance(digest, list) else 0]
        if record and (op["model"].get("keep") or op["model"].get("live")):
            self.last_live_op = (dict(op), digest)
            self.live_desc = (op["fn"], {k: v for k, v in op["model"].items() if k not in ("keep", "live", "new_edits", "new_scribble")})
        if record:
            rec = dict(op)
            n = max(op.get("num_anneals", 1), 0)
            rec["_entropy"] = (0 if op.get("initial_state") is not None else n * len(reported)) + \
                (n * len(reported) if not op.get("in_order") else 0)
            self.calls.append(rec)
            self.results.append(digest)
        ev.append(digest)
        ev.append([c["n_double"], c["n_int"], c["clock_reads"], c["allocs"]] if not unrepl else [c["clock_reads"]])
        self.last = (op, digest)
        self.last_underrun = c["underrun_d"] + c["underrun_i"] + c["raw_underrun"]
        if record:
            self.underruns.append(self.last_underrun)
        return ev

    def apply_repeat(self, op):
        if not self.calls:
            return ["repeat", "none"]
        of = op["of"] % len(self.calls)
        orig = {k: v for k, v in self.calls[of].items() if not k.startswith("_")}
        orig["model"] = {k: v for k, v in orig["model"].items() if k not in ("keep", "live", "new_edits", "new_scribble")}
        variant = op.get("variant")
        if op.get("ctx"):
            orig["ctx"] = op["ctx"]
        if variant == "float_schedule" and isinstance(orig.get("schedule"), list):
            # metamorphic twin: the same temperatures written as Python floats instead of ints (or the other way round where the
            # value is integral).  The numbers are equal, so a seeded call must return the same results; a difference means the
            # extension read the objects' bytes instead of their values (type confusion).
            sched = orig["schedule"]
            twin = [float(t) if isinstance(t, int) else (int(t) if (isinstance(t, float) and math.isfinite(t) and t == int(t) and abs(t) < 1e9) else t) for t in sched]
            if [type(t) for t in twin] == [type(t) for t in sched]:
                variant = None
            else:
                orig["schedule"] = twin
                self.fault("schedule_number_types_swapped")
        immediate = of == len(self.calls) - 1 and getattr(self, "last", (None,))[0] is not None and self.last[0].get("op") == "anneal"
        self.fault("history_repeat")
        if orig.get("clock") != op.get("clock"):
            self.fault("clock_jump_between_twins")
        before = len(self.results)
        ev = self.apply_anneal(orig, record=False, clock=op.get("clock"), repeat_immediate=immediate)
        digest = ev[3]
        want = self.results[of]
        seeded = orig.get("seed") is not None and orig["seed"] >= 0
        passthrough = orig.get("rng", {}).get("mode", "pass") == "pass"
        if orig.get("rng", {}).get("mode") == "raw":
            passthrough = seeded      # fully determined by (seed, raw script)
        if variant == "float_schedule":
            if (seeded and passthrough) and digest != want:
                self.fail("schedule_number_type_changes_result", "the same call with the schedule's temperatures written as %r instead of %r (equal numbers, "
                          "other Python number types) returned different results: %s vs %s" % (orig["schedule"], self.calls[of].get("schedule"), str(want)[:200], str(digest)[:200]))
            return ["repeat-float-schedule", of, ev]
        if seeded and passthrough:
            self.probe("seeded_twin_calls")
            if digest != want:
                self.fail("not_reproducible", "identical calls with seed=%r returned different results (clock %r vs %r): %r vs %r" %
                          (orig["seed"], orig.get("clock"), op.get("clock"), str(want)[:300], str(digest)[:300]))
        elif not passthrough and (seeded or (self.underruns[of] == 0 and self.last_underrun == 0)):
            # a fully scripted stream (no fall-through to the clock-seeded generator) is a function of the script alone
            if digest != want and "not_reproducible" in self.active:
                self.fail("not_reproducible", "identical calls under an identical scripted random stream differ")
        return ["repeat", of, ev]

    def apply_relive(self, op):
        """The very same call again on the very same live model OBJECT (no edit in between): identical results when seeded."""
        last = getattr(self, "last_live_op", None)
        if last is None or getattr(self, "live_obj", None) is None:
            return ["relive", "none"]
        again = dict(last[0])
        again["model"] = dict(again["model"], live=True, new_edits=[], new_scribble=[])
        again["model"].pop("keep", None)
        self.fault("same_object_annealed_again")
        ev = self.apply_anneal(again, record=False)
        digest, want = ev[3], last[1]
        seeded = again.get("seed") is not None and again["seed"] >= 0
        if seeded and again.get("rng", {}).get("mode", "pass") == "pass" and digest != want:
            self.fail("not_reproducible", "the same seeded call on the same model object returned different results the second time: %s vs %s" %
                      (str(want)[:250], str(digest)[:250]))
        return ["relive", ev]

    def apply_huge(self, op):
        """A very large sparse model, optionally from a worker thread with a small stack (a resource fault): buffers sized
        by N, stack use, index arithmetic.  Oracle: exact energy with numpy, domain, count; memory seam; survival."""
        import threading
        import numpy as np
        import os
        fn_name, N = op["fn"], op["N"]
        if op["stack_kb"] == 0 and os.environ.get("VERIF_BUILD_VARIANT") == "san":
            return ["huge", "skipped-san"]
        kind = FN_KIND[fn_name]
        T = self.types[{"quso": "QUSOMatrix", "puso": "PUSOMatrix", "qubo": "QUBOMatrix", "pubo": "PUBOMatrix"}[fn_name]]
        lin_idx = np.arange(0, N, 7)
        pair_idx = np.arange(0, N - 1, 3) if N <= 100000 else np.arange(0, 0)
        d = {(int(i),): 1 for i in lin_idx}
        d.update({(int(i), int(i) + 1): -1 for i in pair_idx})
        d[(N - 1,)] = d.get((N - 1,), 0) + 2
        model = T(d)
        init = None
        if op["init"]:
            v1 = 1 if kind == SPIN else 0
            init = {i: v1 for i in range(N)}
        sh = self.shim
        live_before = sh.live_blocks()
        sh.reset()
        sh.log_enabled(False)
        sh.passthrough()
        sh.clock([0])
        box = {}

        def call():
            try:
                with warnings.catch_warnings():
                    warnings.simplefilter("ignore")
                    box["res"] = self.fns[fn_name](model, num_anneals=1, schedule=list(op["schedule"]), initial_state=init,
                                                   in_order=op["in_order"], seed=op["seed"])
            except Exception as e:      # noqa
                box["exc"] = e
        if op["stack_kb"]:
            old = threading.stack_size(op["stack_kb"] * 1024)
            try:
                th = threading.Thread(target=call)
                th.start()
                th.join()
            finally:
                threading.stack_size(old)
            self.fault("small_thread_stack")
        else:
            call()
        self.probe("huge_calls")
        self.interesting = True
        cnt = sh.counters()
        cnt["live_before"], cnt["live_after"], cnt["live_canary_bad"] = live_before, sh.live_blocks(), sh.check_live()
        self.check_memory({"cnt": cnt}, {"fn": fn_name})
        if "exc" in box:
            e = box["exc"]
            self.fail("unexpected_exception", "huge anneal_%s N=%d: %s: %s" % (fn_name, N, type(e).__name__, str(e)[:200]))
            return ["huge", "exc"]
        res = box.get("res")
        if res is None or len(res) != 1:
            self.fail("wrong_count", "huge call returned %r results" % (None if res is None else len(res)))
            return ["huge", "bad"]
        st = res[0].state
        if len(st) != N:
            self.fail("wrong_keys", "huge call: %d keys for %d indices" % (len(st), N))
            return ["huge", "bad"]
        arr = np.fromiter((st[i] for i in range(N)), dtype=np.int64, count=N)
        dom = (1, -1) if kind == SPIN else (0, 1)
        if not np.isin(arr, dom).all():
            self.fail("bad_state_value", "huge call: values outside %r" % (dom,))
            return ["huge", "bad"]
        e = int(arr[lin_idx].sum()) - int((arr[pair_idx] * arr[pair_idx + 1]).sum()) + 2 * int(arr[N - 1]) if len(pair_idx) else \
            int(arr[lin_idx].sum()) + 2 * int(arr[N - 1])
        if Fraction(res[0].value) != e:
            self.fail("value_mismatch", "huge call: value %r but model(state) = %d" % (res[0].value, e))
        return ["huge", fn_name, N, int(arr.sum()) if op["seed"] is not None else 0]

    def apply_dist(self, op):
        """C12 distribution claim, real PCG stream, exact chain distribution."""
        fn = op["fn"]
        kind = FN_KIND[fn]
        poly, reported = self.model_info(fn, op["model"])
        labels = sorted(reported, key=sort_key)
        if (fn, op["model"]["type"]) in MATRIX_ROUTE:
            labels = list(range(max(reported) + 1))
        N = len(labels)
        tab, den = poly.table(labels)
        init = dec_state(op["initial_state"])
        r0 = RefPoly.assignment_row(kind, labels, init)
        Ts = [float(t) for t in op["schedule"]]
        call = {"fn": fn, "model": op["model"], "num_anneals": op["n"], "schedule": op["schedule"], "initial_state": op["initial_state"],
                "in_order": op["in_order"], "seed": op["seed"], "rng": {"mode": "pass"}, "clock": [0]}
        out = self.do_call(call, log=False)
        self.check_memory(out, call)
        if out["exc"] is not None:
            e = out["exc"]
            self.fail("unexpected_exception", "dist call: %s: %s" % (type(e).__name__, e))
            return ["dist", "exc"]
        counts = [0] * (1 << N)
        try:
            for r in list.__iter__(out["res"]):
                counts[RefPoly.assignment_row(kind, labels, r.state)] += 1
        except Exception as e:
            self.fail("unexpected_exception", "dist: malformed state: %s" % e)
            return ["dist", "malformed"]
        n = op["n"]
        dist = refmetro.chain_distribution(tab, den, N, r0, Ts, bool(op["in_order"]))
        self.fault("rng_passthrough_recorded")
        self.interesting = True
        self.probe("distribution_cells", len(counts))
        self.steps += n * len(Ts) * N
        for row, (cnt, p) in enumerate(zip(counts, dist)):
            p = float(p)
            if p < 1e-15:
                if cnt:
                    self.fail("impossible_state_reached", "state row %d has probability 0 under the exact chain but was returned %d times" % (row, cnt))
                continue
            band = refmetro.bernstein_band(n, min(p, 1.0))
            if abs(cnt - n * p) > band:
                self.fail("distribution_mismatch", "state row %d: count %d of %d, exact probability %.6f (expected %.1f +- %.1f); fn=%s in_order=%s Ts=%s" %
                          (row, cnt, n, p, n * p, band, fn, op["in_order"], Ts))
        return ["dist", fn, counts]


# ==================================================================== configuration

def gen_cfg(rng, prop, tier):
    fns_all = ["quso", "puso", "qubo", "pubo"]
    fns = rng.choice([fns_all, fns_all, ["quso", "qubo"], ["puso", "pubo"], [rng.choice(fns_all)]])
    sizes = rng.choice([[1, 2, 3], [2, 3, 4], [3, 4, 5, 6], [0, 1, 2], [1, 2, 3, 4, 5, 6], [5, 6, 7, 8], [8, 10, 12]])
    cfg = {
        "fns": fns, "sizes": sizes,
        "labels": rng.choice(["int", "str", "tuple", "mixed"]),
        "coefs": rng.choice([[-1, 1], [-2, -1, 1, 2], [-3, -2, -1, 1, 2, 3], [-1, 1, 2, 4], [-1.5, -0.5, 0.5, 1, 2.5]]),
        "p_matrix": rng.choice([0.0, 0.3, 0.6, 0.9]),
        "p_gap": rng.choice([0.0, 0.3, 0.6]),
        "p_offset": rng.choice([0.0, 0.3, 0.7]),
        "p_set_mapping": rng.choice([0.0, 0.15, 0.4]), "p_live": rng.choice([0.0, 0.15, 0.4]), "p_stale": rng.choice([0.0, 0.0, 0.15, 0.4]), "p_zero_entry": rng.choice([0.0, 0.1, 0.3]),
        "p_init": rng.choice([0.0, 0.4, 0.8, 1.0]), "p_scribble": rng.choice([0.0, 0.0, 0.1, 0.3]),
        "num_anneals": rng.choice([[1], [1, 2, 5], [-1, 0, 1, 2, 5], [2, 3], [1, 2, 5, 9], [7, 16, 33]]),
        "w_default_sched": rng.choice([0.3, 1, 3]),
        "w_explicit": rng.choice([1, 3, 6]),
        "w_zero": rng.choice([0.3, 1, 3]),
        "w_pass": rng.choice([1, 3]), "w_script": rng.choice([0, 1, 3]), "w_extreme": rng.choice([0, 1, 2]),
        "w_boundary": rng.choice([0, 2, 5]), "w_raw": rng.choice([0, 1, 2]),
        "p_repeat": rng.choice([0.0, 0.15, 0.3, 0.5]),
        "p_dist": 0.0,
        "dist_n": 20000,
        "n_calls": rng.choice([1, 3, 8, 16, 24]),
    }
    # coefficient scale: the same models in very small or very large units (all still exactly representable, every
    # partial sum exact), and large odd integers that need more than 24 significant bits
    sc = rng.choice([1, 1, 1, 1, 1, 1, 1, 2.0 ** -45, 2.0 ** -20, 2 ** 20])
    if sc != 1:
        cfg["coefs"] = [x * sc for x in cfg["coefs"]]
        cfg["coef_scale"] = sc
    elif rng.random() < 0.08:
        cfg["coefs"] = [2 ** 24 + 1, -(2 ** 24 + 1), 2 ** 24 + 3, 3, -1, 2 ** 31 + 1]
    if prop == "C12":
        cfg["p_matrix"] = rng.choice([0.5, 0.8, 1.0])
        cfg["p_init"] = rng.choice([0.6, 0.9, 1.0])
        cfg["w_explicit"] = rng.choice([3, 6])
        cfg["p_stale"] = rng.choice([0.0, 0.0, 0.1])
        cfg["p_repeat"] = rng.choice([0.15, 0.3, 0.5])
        if rng.random() < (0.06 if tier == "quick" else 0.08):
            cfg["p_dist"] = 0.5
            cfg["n_calls"] = rng.choice([1, 2, 3])
            cfg["dist_n"] = 60000 if tier == "quick" else 200000
    if prop in ("C11", "C17") and rng.random() < 0.01:
        cfg["p_huge"] = 0.5
        cfg["n_calls"] = rng.choice([1, 2, 3])
        cfg["p_huge_main"] = 0.1 if prop == "C17" else 0.0
    if prop == "C17":
        cfg["p_stale"] = rng.choice([0.0, 0.15, 0.4, 0.6])
        cfg["w_extreme"] = rng.choice([1, 2, 4])
        cfg["p_repeat"] = rng.choice([0.15, 0.3, 0.5])
    return cfg


def shrink_op(op):
    out = []
    if op.get("op") != "anneal":
        return out
    m = op["model"]
    if m["terms"]:
        for i in range(len(m["terms"])):
            t = m["terms"][:i] + m["terms"][i + 1:]
            m2 = dict(m, terms=t, edits=[e for e in m["edits"] if e[0] == "R" or any(e[0] == k for k, _ in t)])
            if m.get("set_mapping"):
                # keep the pinned mapping a bijection from the remaining labels onto 0..n-1 (anything else is a user error)
                left = {json.dumps(l, sort_keys=True) for k, _ in t for l in k}
                if m["set_mapping"].get("when") == "end":
                    # pinned on the refreshed model: only labels of terms with a non-zero net coefficient are left
                    net = {}
                    for k, v in t + [e for e in m2["edits"] if e[0] != "R"]:
                        kk = json.dumps(sorted(json.dumps(l, sort_keys=True) for l in k))
                        net[kk] = net.get(kk, 0) + v
                    left = {l for kk, v in net.items() if v for l in json.loads(kk)}
                pairs = sorted([p for p in m["set_mapping"]["pairs"] if json.dumps(p[0], sort_keys=True) in left], key=lambda p: p[1])
                if len(pairs) >= 1:
                    m2["set_mapping"] = dict(m["set_mapping"], pairs=[[p[0], i] for i, p in enumerate(pairs)])
                else:
                    m2.pop("set_mapping")
            out.append(dict(op, model=m2))
    if m["edits"]:
        out.append(dict(op, model={k: v for k, v in dict(m, edits=m["edits"][:-1]).items()
                                   if not (k == "set_mapping" and (v or {}).get("when") == "end")}))
    if m.get("set_mapping"):
        out.append(dict(op, model={k: v for k, v in m.items() if k != "set_mapping"}))
    if m.get("scribble") and not m.get("live"):
        out.append(dict(op, model={k: v for k, v in m.items() if k != "scribble"}))
    if op.get("num_anneals", 1) > 1:
        out.append(dict(op, num_anneals=1))
    if isinstance(op.get("schedule"), list) and len(op["schedule"]) > 1:
        out.append(dict(op, schedule=op["schedule"][:-1]))
        out.append(dict(op, schedule=op["schedule"][1:]))
    r = op.get("rng", {})
    if r.get("mode") == "raw":
        out.append(dict(op, rng={"mode": "pass"}))
        if len(r.get("words", [])) > 1:
            out.append(dict(op, rng=dict(r, words=r["words"][:1])))
    if r.get("mode") == "script":
        if not r.get("boundary"):
            out.append(dict(op, rng={"mode": "pass"}))
        if len(r.get("d", [])) > 1:
            out.append(dict(op, rng=dict(r, d=r["d"][: len(r["d"]) // 2])))
        if len(r.get("i", [])) > 1:
            out.append(dict(op, rng=dict(r, i=r["i"][: len(r["i"]) // 2])))
    if op.get("temperature_range"):
        out.append(dict(op, temperature_range=None))
    if op.get("seed") not in (None, 0):
        out.append(dict(op, seed=0))
    plain = all(2 ** -10 <= abs(v) <= 2 ** 10 for _, v in m["terms"])     # never mix units: partial sums must stay exact
    for k, v in m["terms"]:
        if v not in (1, -1) and plain:
            t = [[kk, (1 if vv > 0 else -1) if kk == k else vv] for kk, vv in m["terms"]]
            if not m["edits"]:
                out.append(dict(op, model=dict(m, terms=t)))
            break
    return out
